(* SemBasics.v — the small library every proof about spec/Sem.v starts from:
   - the algebra of traces ([tapp] is a monoid with unit [tnil], [tbind_list]
     distributes over [++], a failing element cuts the rest, [tbind_trace]);
   - one characterising equation per step kind for [sem_step] / [sem_pred] /
     [sem_chain] (all by [reflexivity]: the local [fix chain] inside [ev] is
     convertible with [sem_chain]);
   after which [ev], [sem_step], [sem_pred] are made opaque: later proofs only
   rewrite with the equations.
   Stdlib only, no axioms. *)
From Coq Require Import Floats.SpecFloat.
From SJ Require Import lib.Base model.Json model.Ast model.ExecLib model.Leaf spec.Sem.

(* ------------------------------------------------------------------ *)
(* trace algebra *)

Lemma trace_eta (t : trace) : t = (fst t, snd t).
Proof. destruct t; reflexivity. Qed.

Lemma tapp_nil_l t : tapp tnil t = t.
Proof. destruct t; reflexivity. Qed.

Lemma tapp_nil_r t : tapp t tnil = t.
Proof. destruct t as [l [e|]]; unfold tapp; simpl; [reflexivity|]. now rewrite app_nil_r. Qed.

Lemma tapp_assoc a b c : tapp (tapp a b) c = tapp a (tapp b c).
Proof.
  destruct a as [la [ea|]], b as [lb [eb|]], c as [lc ec]; unfold tapp; simpl; try reflexivity.
  now rewrite app_assoc.
Qed.

Lemma tapp_fail_l l e t : tapp (l, Some e) t = (l, Some e).
Proof. reflexivity. Qed.

Lemma tapp_ok_l l t : tapp (l, None) t = (l ++ fst t, snd t).
Proof. reflexivity. Qed.

Lemma tapp_tfail e t : tapp (tfail e) t = tfail e.
Proof. reflexivity. Qed.

Lemma tapp_tone x t : tapp (tone x) t = (x :: fst t, snd t).
Proof. reflexivity. Qed.

Lemma fst_tapp a b : fst (tapp a b) = match snd a with Some _ => fst a | None => fst a ++ fst b end.
Proof. unfold tapp; destruct (snd a); reflexivity. Qed.

Lemma snd_tapp a b : snd (tapp a b) = match snd a with Some e => Some e | None => snd b end.
Proof. unfold tapp; destruct (snd a) eqn:E; simpl; congruence. Qed.

Lemma snd_tapp_None a b : snd (tapp a b) = None <-> snd a = None /\ snd b = None.
Proof. rewrite snd_tapp. destruct (snd a); intuition congruence. Qed.

Lemma tapp_snd_Some a b e : snd a = Some e -> tapp a b = a.
Proof. unfold tapp; intros ->; reflexivity. Qed.

Lemma tapp_snd_None a b : snd a = None -> tapp a b = (fst a ++ fst b, snd b).
Proof. unfold tapp; intros ->; reflexivity. Qed.

Lemma tbind_nil k : tbind_list [] k = tnil.
Proof. reflexivity. Qed.

Lemma tbind_cons x r k : tbind_list (x :: r) k = tapp (k x) (tbind_list r k).
Proof. reflexivity. Qed.

Lemma tbind_single x k : tbind_list [x] k = k x.
Proof. simpl. apply tapp_nil_r. Qed.

Lemma tbind_app l1 l2 k : tbind_list (l1 ++ l2) k = tapp (tbind_list l1 k) (tbind_list l2 k).
Proof.
  induction l1 as [|x r IH]; simpl.
  - now rewrite tapp_nil_l.
  - now rewrite IH, tapp_assoc.
Qed.

Lemma tbind_ext l k k' : (forall x, In x l -> k x = k' x) -> tbind_list l k = tbind_list l k'.
Proof.
  induction l as [|x r IH]; simpl; intros H; [reflexivity|].
  rewrite H by now left. rewrite IH; [reflexivity|]. intros y Hy; apply H; now right.
Qed.

Lemma tbind_ext_all l k k' : (forall x, k x = k' x) -> tbind_list l k = tbind_list l k'.
Proof. intros H; apply tbind_ext; intros; apply H. Qed.

Lemma tbind_tone l : tbind_list l tone = (l, None).
Proof.
  induction l as [|x r IH]; [reflexivity|]. simpl. rewrite IH. reflexivity.
Qed.

Lemma tbind_tnil l : tbind_list l (fun _ => tnil) = tnil.
Proof. induction l as [|x r IH]; [reflexivity|]. simpl. now rewrite IH. Qed.

(* a failing element: everything after it is cut *)
Lemma tbind_fail l1 x l2 k e :
  snd (k x) = Some e ->
  tbind_list (l1 ++ x :: l2) k = tapp (tbind_list l1 k) (k x).
Proof.
  intros H. rewrite tbind_app. simpl. now rewrite (tapp_snd_Some _ _ _ H).
Qed.

Lemma tbind_all_ok l k :
  (forall x, In x l -> snd (k x) = None) ->
  tbind_list l k = (flat_map (fun x => fst (k x)) l, None).
Proof.
  induction l as [|x r IH]; intros H; [reflexivity|].
  simpl. rewrite IH by (intros; apply H; now right).
  rewrite (tapp_snd_None _ _ (H x (or_introl eq_refl))). reflexivity.
Qed.

(* position independence: the bind fails iff some element fails *)
Lemma tbind_fail_iff l k :
  snd (tbind_list l k) <> None <-> exists x, In x l /\ snd (k x) <> None.
Proof.
  induction l as [|x r IH]; simpl.
  - split; [intros H; now elim H | intros [x [[] _]]].
  - rewrite snd_tapp. destruct (snd (k x)) eqn:E.
    + split; [intros _; exists x; split; [now left | congruence] | congruence].
    + rewrite IH. split.
      * intros [y [Hy Hk]]. exists y; split; [now right | exact Hk].
      * intros [y [[<-|Hy] Hk]]; [congruence | exists y; now split].
Qed.

Lemma tbind_fail_iff_app l1 x l2 k :
  snd (tbind_list (l1 ++ x :: l2) k) <> None <->
  (exists y, In y l1 /\ snd (k y) <> None) \/ snd (k x) <> None \/ (exists y, In y l2 /\ snd (k y) <> None).
Proof.
  rewrite tbind_fail_iff. split.
  - intros [y [Hy Hk]]. apply in_app_or in Hy. destruct Hy as [Hy|[<-|Hy]]; eauto.
  - intros [[y [Hy Hk]]|[Hk|[y [Hy Hk]]]].
    + exists y; split; [apply in_or_app; now left | exact Hk].
    + exists x; split; [apply in_or_app; right; now left | exact Hk].
    + exists y; split; [apply in_or_app; right; now right | exact Hk].
Qed.

Lemma tbind_None_iff l k :
  snd (tbind_list l k) = None <-> forall x, In x l -> snd (k x) = None.
Proof.
  split.
  - intros H x Hx. destruct (snd (k x)) eqn:E; [|reflexivity].
    exfalso. apply (proj2 (tbind_fail_iff l k)); [|exact H]. exists x; split; [exact Hx | congruence].
  - intros H. destruct (snd (tbind_list l k)) eqn:E; [|reflexivity].
    assert (Hne : snd (tbind_list l k) <> None) by congruence.
    apply tbind_fail_iff in Hne. destruct Hne as [x [Hx Hk]]. elim Hk. now apply H.
Qed.

(* bind over a trace: k on the items in order, concatenating until the first
   failure, then the trace's own failure *)
Definition tbind_trace (t : trace) (k : json -> trace) : trace :=
  tapp (tbind_list (fst t) k) ([], snd t).

Lemma tbind_trace_tnil k : tbind_trace tnil k = tnil.
Proof. reflexivity. Qed.

Lemma tbind_trace_tfail e k : tbind_trace (tfail e) k = tfail e.
Proof. reflexivity. Qed.

Lemma tbind_trace_tone x k : tbind_trace (tone x) k = k x.
Proof. unfold tbind_trace; simpl. change ([], None) with tnil. now rewrite !tapp_nil_r. Qed.

Lemma tbind_trace_ok l k : tbind_trace (l, None) k = tbind_list l k.
Proof. unfold tbind_trace; simpl. change ([], None) with tnil. now rewrite tapp_nil_r. Qed.

Lemma tbind_trace_tapp a b k :
  tbind_trace (tapp a b) k = tapp (tbind_trace a k) (tbind_trace b k).
Proof.
  unfold tbind_trace. destruct a as [la [ea|]].
  - rewrite tapp_fail_l. cbn [fst snd]. rewrite tapp_assoc. reflexivity.
  - rewrite tapp_ok_l. cbn [fst snd]. rewrite tbind_app, !tapp_assoc. f_equal.
    change (@nil json, @None err) with tnil. now rewrite tapp_nil_l.
Qed.

Lemma tbind_trace_tbind l f k :
  tbind_trace (tbind_list l f) k = tbind_list l (fun x => tbind_trace (f x) k).
Proof.
  induction l as [|x r IH]; [reflexivity|].
  simpl. now rewrite tbind_trace_tapp, IH.
Qed.

Lemma tbind_trace_ext t k k' :
  (forall x, In x (fst t) -> k x = k' x) -> tbind_trace t k = tbind_trace t k'.
Proof. intros H. unfold tbind_trace. now rewrite (tbind_ext _ _ _ H). Qed.

Lemma tbind_trace_tone_r t : tbind_trace t tone = t.
Proof.
  unfold tbind_trace. rewrite tbind_tone, tapp_ok_l. simpl. rewrite app_nil_r. now destruct t.
Qed.

Lemma tbind_trace_assoc t f k :
  tbind_trace (tbind_trace t f) k = tbind_trace t (fun x => tbind_trace (f x) k).
Proof.
  unfold tbind_trace at 2 3. rewrite tbind_trace_tapp, tbind_trace_tbind. reflexivity.
Qed.

Lemma snd_tbind_trace_None t k :
  snd (tbind_trace t k) = None <-> snd t = None /\ forall x, In x (fst t) -> snd (k x) = None.
Proof.
  unfold tbind_trace. rewrite snd_tapp_None, tbind_None_iff. simpl. tauto.
Qed.

(* ------------------------------------------------------------------ *)
(* unwrap_over / structural / leaf_k *)

Definition candidates (u : bool) (v : json) : list json :=
  match v with JArr _ l => if u then l else [v] | _ => [v] end.

Lemma unwrap_over_bind u v one : unwrap_over u v one = tbind_list (candidates u v) one.
Proof.
  unfold unwrap_over, candidates. destruct v; try (now rewrite tbind_single).
  destruct u; [reflexivity | now rewrite tbind_single].
Qed.

Lemma structural_true what : structural true what = tnil.
Proof. reflexivity. Qed.

Lemma structural_false what : structural false what = tfail (EVerbose what).
Proof. reflexivity. Qed.

(* ------------------------------------------------------------------ *)
(* characterising equations *)

Section Eqs.
Variable L : ExecLib.
Variable C : cenv.
Variable Q : quirks.

Notation sem_step := (sem_step L C Q).
Notation sem_pred := (sem_pred L C Q).
Notation sem_chain := (sem_chain L C Q).
Notation laxm := (laxm C).

(* the local [fix chain] of [ev] is [sem_chain] *)
Lemma ev_chain_is_sem_chain :
  (fix chain (n : list step) (cur : json) (lastsz : Z) (ig u : bool) (v : json) {struct n} : trace :=
     match n with
     | [] => tone v
     | s' :: rest => fst (ev L C Q s') (fun lsz' ig' x => chain rest cur lsz' ig' laxm x) cur lastsz ig u v
     end) = sem_chain.
Proof. reflexivity. Qed.

Lemma sem_chain_nil cur l ig u v : sem_chain [] cur l ig u v = tone v.
Proof. reflexivity. Qed.

Lemma sem_chain_cons s rest cur l ig u v :
  sem_chain (s :: rest) cur l ig u v =
  sem_step s (fun l' ig' x => sem_chain rest cur l' ig' laxm x) cur l ig u v.
Proof. reflexivity. Qed.

Lemma sem_path_eq root : sem_path L C Q root = sem_chain root (c_root C) (-1) laxm laxm (c_root C).
Proof. reflexivity. Qed.

(* the predicate value of a condition chain: exactly one step *)
Definition pred_chain (c : chain) (cur : json) (l : Z) (ig : bool) (v : json) : pout * option err :=
  match c with
  | [q] => sem_pred q cur l ig v
  | _ => (PUnknown, Some (EInvalid "boolean jsonpath item"))
  end.

(* an operand sequence, evaluated with errors suppressed *)
Definition operand (c : chain) (unwrap : bool) (cur : json) (l : Z) (ig : bool) (v : json)
  : list json + option err :=
  let t := sem_chain c cur l ig laxm v in
  match snd t with
  | Some e => inr (hard e)
  | None => inl (if unwrap && laxm then unwrapSeq (fst t) else fst t)
  end.

Definition predicate (lc : chain) (rc : option chain) (unwrapRight : bool)
           (cb : json -> json -> pout * option err)
           (cur : json) (l : Z) (ig : bool) (v : json) : pout * option err :=
  match operand lc true cur l ig v with
  | inr e => (PUnknown, e)
  | inl lseq =>
      match (match rc with Some rn => operand rn unwrapRight cur l ig v | None => inl [JNull] end) with
      | inr e => (PUnknown, e)
      | inl rseq => spairs (negb laxm) cb lseq rseq false false
      end
  end.

Definition cmp_cb (op : binop) : json -> json -> pout * option err :=
  fun a b => total_cb (compareItems L (c_useTZ C) op a b).

Definition is_cmp (op : binop) : bool :=
  match op with BEq | BNe | BLt | BGt | BLe | BGe => true | _ => false end.

(* the item a predicate leaves when it is used as a path step *)
Definition pred_item (p : pout * option err) (k : json -> trace) : trace :=
  match p with
  | (_, Some e) => tfail e
  | (q, None) => k (bool_item q)
  end.

(* --- sem_pred --- *)

Lemma sem_pred_and lc rc cur l ig v :
  sem_pred (SBin BAnd lc rc) cur l ig v =
  match pred_chain lc cur l ig v with
  | (PFalse, e) => (PFalse, e)
  | (pl, Some e) => (pl, Some e)
  | (pl, None) => match pred_chain rc cur l ig v with
                  | (PTrue, e2) => (pl, e2)
                  | x => x
                  end
  end.
Proof. reflexivity. Qed.

Lemma sem_pred_or lc rc cur l ig v :
  sem_pred (SBin BOr lc rc) cur l ig v =
  match pred_chain lc cur l ig v with
  | (PTrue, e) => (PTrue, e)
  | (pl, Some e) => (pl, Some e)
  | (pl, None) => match pred_chain rc cur l ig v with
                  | (PFalse, _) => (pl, None)
                  | x => x
                  end
  end.
Proof. reflexivity. Qed.

Lemma sem_pred_starts lc rc cur l ig v :
  sem_pred (SBin BStartsWith lc rc) cur l ig v =
  predicate lc (Some rc) false executeStartsWith cur l ig v.
Proof. reflexivity. Qed.

Lemma sem_pred_cmp op lc rc cur l ig v :
  is_cmp op = true ->
  sem_pred (SBin op lc rc) cur l ig v = predicate lc (Some rc) true (cmp_cb op) cur l ig v.
Proof. destruct op; intros H; try discriminate H; reflexivity. Qed.

Lemma sem_pred_arith op lc rc cur l ig v :
  is_bool_binop op = false ->
  sem_pred (SBin op lc rc) cur l ig v = (PUnknown, Some (EInvalid "invalid jsonpath boolean operator")).
Proof. destruct op; intros H; try discriminate H; reflexivity. Qed.

Lemma sem_pred_regex a pat flags cur l ig v :
  sem_pred (SRegex a pat flags) cur l ig v =
  predicate a None false (fun x _ => executeLikeRegex L pat flags x) cur l ig v.
Proof. reflexivity. Qed.

Lemma sem_pred_not a cur l ig v :
  sem_pred (SUn UNot a) cur l ig v =
  match pred_chain a cur l ig v with
  | (PUnknown, e) => (PUnknown, e)
  | (PTrue, _) => (PFalse, None)
  | (PFalse, _) => (PTrue, None)
  end.
Proof. reflexivity. Qed.

Lemma sem_pred_isunknown a cur l ig v :
  sem_pred (SUn UIsUnknown a) cur l ig v =
  match pred_chain a cur l ig v with
  | (q, Some e) => if q_iu_swallow Q
                   then (predFrom (match q with PUnknown => true | _ => false end), None)
                   else (PUnknown, Some e)
  | (q, None) => (predFrom (match q with PUnknown => true | _ => false end), None)
  end.
Proof. reflexivity. Qed.

Lemma sem_pred_exists a cur l ig v :
  sem_pred (SUn UExists a) cur l ig v =
  let t := sem_chain a cur l ig laxm v in
  if laxm then
    match fst t, snd t with
    | _ :: _, _ => (PTrue, None)
    | [], Some e => (PUnknown, hard e)
    | [], None => (PFalse, None)
    end
  else
    match snd t, fst t with
    | Some e, _ => (PUnknown, hard e)
    | None, [] => (PFalse, None)
    | None, _ => (PTrue, None)
    end.
Proof. reflexivity. Qed.

Definition is_pred_step (s : step) : bool :=
  match s with
  | SBin op _ _ => is_bool_binop op
  | SUn UExists _ | SUn UNot _ | SUn UIsUnknown _ => true
  | SRegex _ _ _ => true
  | _ => false
  end.

Lemma sem_pred_other s cur l ig v :
  match s with SBin _ _ _ | SUn UExists _ | SUn UNot _ | SUn UIsUnknown _ | SRegex _ _ _ => False | _ => True end ->
  sem_pred s cur l ig v = (PUnknown, Some (EInvalid "invalid boolean jsonpath item type")).
Proof. destruct s as [k| | | | | | | [] a | | | | | |]; intros H; try (now elim H); try reflexivity; destruct k; reflexivity. Qed.

(* --- sem_step --- *)

Lemma sem_step_root k cur l ig u v : sem_step (SConst CRoot) k cur l ig u v = k l ig (c_root C).
Proof. reflexivity. Qed.
Lemma sem_step_current k cur l ig u v : sem_step (SConst CCurrent) k cur l ig u v = k l ig cur.
Proof. reflexivity. Qed.
Lemma sem_step_null k cur l ig u v : sem_step (SConst CNull) k cur l ig u v = k l ig JNull.
Proof. reflexivity. Qed.
Lemma sem_step_true k cur l ig u v : sem_step (SConst CTrue) k cur l ig u v = k l ig (JBool true).
Proof. reflexivity. Qed.
Lemma sem_step_false k cur l ig u v : sem_step (SConst CFalse) k cur l ig u v = k l ig (JBool false).
Proof. reflexivity. Qed.
Lemma sem_step_last k cur l ig u v :
  sem_step (SConst CLast) k cur l ig u v =
  if l <? 0 then tfail (EExec "evaluating jsonpath LAST outside of array subscript")
  else k l ig (JNum (NInt (l - 1))).
Proof. reflexivity. Qed.
Lemma sem_step_str x k cur l ig u v : sem_step (SStr x) k cur l ig u v = k l ig (JStr x).
Proof. reflexivity. Qed.
Lemma sem_step_integer z k cur l ig u v : sem_step (SInteger z) k cur l ig u v = k l ig (JNum (NInt z)).
Proof. reflexivity. Qed.
Lemma sem_step_numeric f k cur l ig u v : sem_step (SNumeric f) k cur l ig u v = k l ig (JNum (NFlt f)).
Proof. reflexivity. Qed.
Lemma sem_step_var name k cur l ig u v :
  sem_step (SVar name) k cur l ig u v =
  match lookup name (c_vars C) with
  | Some val => k l ig val
  | None => tfail (EExec "could not find jsonpath variable")
  end.
Proof. reflexivity. Qed.

Definition key_one (key : string) (ig : bool) (k : json -> trace) (x : json) : trace :=
  match x with
  | JObj _ m => match lookup key m with
                | Some y => k y
                | None => structural ig "JSON object does not contain key"
                end
  | _ => structural ig "jsonpath member accessor can only be applied to an object"
  end.

Lemma sem_step_key key k cur l ig u v :
  sem_step (SKey key) k cur l ig u v = unwrap_over u v (key_one key ig (k l ig)).
Proof. reflexivity. Qed.

Definition anykey_one (ig : bool) (k : json -> trace) (x : json) : trace :=
  match x with
  | JObj _ m => tbind_list (map snd m) k
  | _ => structural ig "jsonpath wildcard member accessor can only be applied to an object"
  end.

Lemma sem_step_anykey k cur l ig u v :
  sem_step (SConst CAnyKey) k cur l ig u v = unwrap_over u v (anykey_one ig (k l ig)).
Proof. reflexivity. Qed.

Lemma sem_step_anyarray k cur l ig u v :
  sem_step (SConst CAnyArray) k cur l ig u v =
  match v with
  | JArr _ es => tbind_list es (k l ig)
  | _ => if laxm then k l ig v
         else structural ig "jsonpath wildcard array accessor can only be applied to an array"
  end.
Proof. reflexivity. Qed.

Lemma sem_step_any first last k cur l ig u v :
  sem_step (SAny first last) k cur l ig u v =
  tapp (if first =? 0 then k l true v else tnil)
       (if isCollection v then descend (k l true) (children v) 1 first last else tnil).
Proof. reflexivity. Qed.

(* the array a subscript step works on *)
Definition index_target (v : json) : option (list json) :=
  match v with JArr _ es => Some es | _ => if laxm then Some [v] else None end.

(* the selection loop of a subscript step, bounds still unevaluated *)
Fixpoint index_go (es : list json) (k : json -> trace) (cur : json) (ig : bool) (v : json)
         (subs : list (chain * option chain)) : trace :=
  let size := Z.of_nat (List.length es) in
  match subs with
  | [] => tnil
  | (a, b) :: rest =>
      match index_of L (sem_chain a cur size ig laxm v) with
      | inr e => tfail e
      | inl from =>
          match (match b with
                 | Some bn => index_of L (sem_chain bn cur size ig laxm v)
                 | None => inl from
                 end) with
          | inr e => tfail e
          | inl to =>
              if negb ig && ((from <? 0) || (from >? to) || (to >=? size))
              then tfail (EVerbose "jsonpath array subscript is out of bounds")
              else
                let f := if from <? 0 then 0 else from in
                let t := if to >=? size then size - 1 else to in
                let sel := slice es f t in
                let sel' := if q_skip_null Q then filter (fun x => negb (is_null x)) sel else sel in
                tapp (tbind_list sel' k) (index_go es k cur ig v rest)
          end
      end
  end.

Lemma sem_step_index subs k cur l ig u v :
  sem_step (SIndex subs) k cur l ig u v =
  match index_target v with
  | None => tfail (EVerbose "jsonpath array accessor can only be applied to an array")
  | Some es => index_go es (k (Z.of_nat (List.length es)) ig) cur ig v subs
  end.
Proof.
  change (sem_step (SIndex subs) k cur l ig u v) with
    (match index_target v with
     | None => tfail (EVerbose "jsonpath array accessor can only be applied to an array")
     | Some es =>
         (fix go (subs : list (list step * option (list step))) : trace :=
            match subs with
            | [] => tnil
            | (a, b) :: rest =>
                match index_of L (sem_chain a cur (Z.of_nat (List.length es)) ig laxm v) with
                | inr e => tfail e
                | inl from =>
                    match (match b with
                           | Some bn => index_of L (sem_chain bn cur (Z.of_nat (List.length es)) ig laxm v)
                           | None => inl from
                           end) with
                    | inr e => tfail e
                    | inl to =>
                        if negb ig && ((from <? 0) || (from >? to) || (to >=? Z.of_nat (List.length es)))
                        then tfail (EVerbose "jsonpath array subscript is out of bounds")
                        else
                          tapp (tbind_list
                                  (if q_skip_null Q
                                   then filter (fun x => negb (is_null x))
                                          (slice es (if from <? 0 then 0 else from)
                                                 (if to >=? Z.of_nat (List.length es) then Z.of_nat (List.length es) - 1 else to))
                                   else slice es (if from <? 0 then 0 else from)
                                              (if to >=? Z.of_nat (List.length es) then Z.of_nat (List.length es) - 1 else to))
                                  (k (Z.of_nat (List.length es)) ig))
                               (go rest)
                    end
                end
            end) subs
     end).
  destruct (index_target v) as [es|]; [|reflexivity].
  induction subs as [|[a b] rest IH]; [reflexivity|].
  cbn [index_go]. rewrite <- IH. reflexivity.
Qed.

Definition filter_one (a : chain) (l : Z) (ig : bool) (k : json -> trace) (x : json) : trace :=
  match pred_chain a x l ig x with
  | (_, Some e) => tfail e
  | (PTrue, None) => k x
  | (_, None) => tnil
  end.

Lemma sem_step_filter a k cur l ig u v :
  sem_step (SUn UFilter a) k cur l ig u v = unwrap_over u v (filter_one a l ig (k l ig)).
Proof. reflexivity. Qed.

Definition sign_one (minus : bool) (k : json -> trace) (x : json) : trace :=
  match x with
  | JNum (NInt z) => k (JNum (NInt (if minus then intUMinus z else z)))
  | JNum (NFlt f) => k (JNum (NFlt (if minus then fneg f else f)))
  | JNum (NJs t') =>
      match castJSONNumber L t' (if minus then intUMinus else fun z => z) (if minus then fneg else fun f => f) with
      | Some n => k (JNum n)
      | None => tfail (EVerbose "operand of unary jsonpath operator is not a numeric value")
      end
  | _ => tfail (EVerbose "operand of unary jsonpath operator is not a numeric value")
  end.

Definition sign_step (minus : bool) (a : chain) (k : json -> trace) (cur : json) (l : Z) (ig : bool) (v : json) : trace :=
  let t := sem_chain a cur l ig laxm v in
  match snd t with
  | Some e => tfail e
  | None => tbind_list (if laxm then unwrapSeq (fst t) else fst t) (sign_one minus k)
  end.

Lemma sem_step_plus a k cur l ig u v :
  sem_step (SUn UPlus a) k cur l ig u v = sign_step false a (k l ig) cur l ig v.
Proof. reflexivity. Qed.

Lemma sem_step_minus a k cur l ig u v :
  sem_step (SUn UMinus a) k cur l ig u v = sign_step true a (k l ig) cur l ig v.
Proof. reflexivity. Qed.

Lemma sem_step_pred_un op a k cur l ig u v :
  match op with UExists | UNot | UIsUnknown => True | _ => False end ->
  sem_step (SUn op a) k cur l ig u v = pred_item (sem_pred (SUn op a) cur l ig v) (k l ig).
Proof. destruct op; intros H; try (now elim H); reflexivity. Qed.

Lemma sem_step_regex a pat flags k cur l ig u v :
  sem_step (SRegex a pat flags) k cur l ig u v = pred_item (sem_pred (SRegex a pat flags) cur l ig v) (k l ig).
Proof. reflexivity. Qed.

Lemma sem_step_boolbin op lc rc k cur l ig u v :
  is_bool_binop op = true ->
  sem_step (SBin op lc rc) k cur l ig u v = pred_item (sem_pred (SBin op lc rc) cur l ig v) (k l ig).
Proof. destruct op; intros H; try discriminate H; reflexivity. Qed.

Definition arith_step (op : binop) (lc rc : chain) (k : json -> trace) (cur : json) (l : Z) (ig : bool) (v : json) : trace :=
  let tl := sem_chain lc cur l ig laxm v in
  match snd tl with
  | Some e => tfail e
  | None =>
      match (if laxm then unwrapSeq (fst tl) else fst tl) with
      | [lv] =>
          let tr := sem_chain rc cur l ig laxm v in
          match snd tr with
          | Some e => tfail e
          | None =>
              match (if laxm then unwrapSeq (fst tr) else fst tr) with
              | [rv] => match execMathOp L lv rv op with
                        | MErr e => tfail e
                        | MOk n => k (JNum n)
                        end
              | _ => tfail (mathOperandErr "right")
              end
          end
      | _ => tfail (mathOperandErr "left")
      end
  end.

Lemma sem_step_arith op lc rc k cur l ig u v :
  is_bool_binop op = false ->
  sem_step (SBin op lc rc) k cur l ig u v = arith_step op lc rc (k l ig) cur l ig v.
Proof. destruct op; intros H; try discriminate H; reflexivity. Qed.

Definition keyvalue_one (k : json -> trace) (x : json) : trace :=
  match x with
  | JObj _ members =>
      tbind_list
        (map (fun key => JObj 0 [("id", JNum (NInt kv_abstract_id)); ("key", JStr key);
                                 ("value", match lookup key members with Some y => y | None => JNull end)]%string)
             (sort_keys (map fst members)))
        k
  | _ => tfail (EVerbose ".keyvalue() can only be applied to an object")
  end.

Lemma sem_step_meth m k cur l ig u v :
  sem_step (SMeth m) k cur l ig u v =
  match method_leaf L laxm ig m with
  | Some (unwraps, lf) =>
      if unwraps then unwrap_over u v (leaf_k lf (k l ig)) else leaf_k lf (k l ig) v
  | None => unwrap_over u v (keyvalue_one (k l ig))
  end.
Proof. reflexivity. Qed.

Lemma sem_step_decimal p sc k cur l ig u v :
  sem_step (SDecimal p sc) k cur l ig u v =
  unwrap_over u v (leaf_k (leaf_number L (Some (p, sc))) (k l ig)).
Proof. reflexivity. Qed.

Lemma sem_step_dt op tmpl prec k cur l ig u v :
  sem_step (SDt op tmpl prec) k cur l ig u v =
  unwrap_over u v (leaf_k (leaf_datetime L (c_useTZ C) op tmpl prec) (k l ig)).
Proof. reflexivity. Qed.

End Eqs.

Global Opaque ev sem_step sem_pred.

Arguments pred_chain L C Q c cur l ig v : simpl never.
