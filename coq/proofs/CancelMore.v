(* CancelMore.v — two further cancellation theorems (C20).

   Part 1 (proof: CancelStop.v), polls stop: once a poll has seen the context
   done, no later poll happens.  The statement as first proposed is false for
   calls entered after the cancellation point ([polls_stop_refuted]); the true
   statements are [polls_bound], [polls_stop_partial], [polls_stop_entry_done]
   and, for the entry points, [query_polls_stop] / [query_cancel_exact].

   Part 2 (proof: CancelPrefix.v), prefix determinism.
   Stdlib only, no axioms. *)
From SJ Require Import lib.Base model.Json model.Ast model.ExecLib model.Leaf model.Exec
     proofs.RunBasics proofs.InvTac proofs.Invariants.
From SJ Require Export proofs.CancelStop proofs.CancelPrefix.


(* The statement first proposed,
     polls s' <= Nat.max (polls s) (S k),
   is false when the call is entered after the cancellation point: an item
   call always polls once more (and then returns the cancellation). *)
Example polls_stop_refuted :
  let E := mkenv true JNull [] 0 false (Some 0%nat) in
  let s := mkst JNull (-1) true true 0 0 1 5%nat 100 in
  exists a s', run L_triv E 1 (RItem [] JNull None false) s = Ret (a, s') /\
               e_cancel_at E = Some 0%nat /\
               polls s = 5%nat /\ polls s' = 6%nat /\
               ~ (polls s' <= Nat.max (polls s) (S 0))%nat.
Proof.
  exists (AItem (mkr SFailed (Some ECancel) None)), (mkst JNull (-1) true true 0 0 1 6%nat 100).
  vm_compute. repeat split; try reflexivity. intros H. lia.
Qed.

(* the bound that does hold for every entry state *)
Theorem polls_bound : forall L E fuel r s a s' k, e_cancel_at E = Some k ->
  run L E fuel r s = Ret (a, s') -> (polls s' <= Nat.max (S (polls s)) (S k))%nat.
Proof.
  intros L E fuel r s a s' k Hk H. pose proof (pstops_run L E k fuel Hk _ _ _ _ H) as P.
  unfold ppost in P. destruct a; destruct P as (_ & P & _); exact P.
Qed.

(* [polls_stop] with the missing hypothesis: the call is entered before the
   cancellation point has been passed.  Then the proposed conclusion holds:
   no poll after the one (number k) that first sees the context done. *)
Theorem polls_stop_partial : forall L E fuel r s a s' k, e_cancel_at E = Some k ->
  run L E fuel r s = Ret (a, s') -> (polls s <= k)%nat ->
  (polls s' <= Nat.max (polls s) (S k))%nat.
Proof. intros L E fuel r s a s' k Hk H Hs. pose proof (polls_bound _ _ _ _ _ _ _ _ Hk H). lia. Qed.

(* a call entered after the cancellation point makes at most one poll, and if
   it makes one it returns the cancellation *)
Theorem polls_stop_entry_done : forall L E fuel r s a s' k, e_cancel_at E = Some k ->
  run L E fuel r s = Ret (a, s') -> (k < polls s)%nat ->
  polls s' = polls s \/
  (polls s' = S (polls s) /\
   match a with
   | AItem x => r_st x = SFailed /\ r_err x = Some ECancel
   | ABool p => p_out p = PUnknown /\ p_err p = Some ECancel
   end).
Proof.
  intros L E fuel r s a s' k Hk H Hs. pose proof (pstops_run L E k fuel Hk _ _ _ _ H) as P.
  unfold ppost in P. destruct a; destruct P as (P1 & P2 & P3);
    (assert (Hlt : (k < polls s')%nat) by lia;
     destruct (Nat.eq_dec (polls s') (polls s)) as [Heq|Hne]; [left; exact Heq|];
     destruct (P3 Hlt) as [P4|P4]; [contradiction|right; split; [lia|exact P4]]).
Qed.

(* entry points: at most k+1 polls; and a run that reaches poll k makes exactly
   k+1 polls and returns the cancellation *)
Theorem query_polls_stop : forall L fuel p doc o vals k r s',
  o_cancel_at o = Some k -> query L fuel p doc o vals = Ret (r, s') -> (polls s' <= S k)%nat.
Proof.
  intros L fuel p doc o vals k r s' Hk H.
  assert (Hk' : e_cancel_at (mkEnv p doc o) = Some k) by exact Hk.
  unfold query in H; steps H.
  all: match goal with H : executeItem ?E ?self _ _ _ _ = Ret _ |- _ =>
         unfold executeItem in H; apply callItem_Ret in H;
         apply (pstops_run L _ k fuel Hk') in H; cbn [ppost] in H; destruct H as (_ & H & _);
         cbn [polls newExec] in H; lia end.
Qed.

Theorem query_cancel_exact : forall L fuel p doc o vals k r s',
  o_cancel_at o = Some k -> query L fuel p doc o vals = Ret (r, s') -> (k < polls s')%nat ->
  polls s' = S k /\ r_st r = SFailed /\ r_err r = Some ECancel.
Proof.
  intros L fuel p doc o vals k r s' Hk H Hlt.
  pose proof (query_polls_stop _ _ _ _ _ _ _ _ _ Hk H).
  pose proof (query_cancelled _ _ _ _ _ _ _ _ _ Hk H Hlt). split; [lia|assumption].
Qed.

Print Assumptions polls_bound.
Print Assumptions polls_stop_partial.
Print Assumptions polls_stop_entry_done.
Print Assumptions query_polls_stop.
Print Assumptions query_cancel_exact.

(* ====================================================================== *)
(* Part 2: prefix determinism                                              *)
(* ====================================================================== *)

Definition is_cancel (a : ans) : Prop :=
  match a with
  | AItem x => r_st x = SFailed /\ r_err x = Some ECancel
  | ABool p => p_out p = PUnknown /\ p_err p = Some ECancel
  end.

Lemma canc_req_is_cancel r a : canc_req r a -> is_cancel a.
Proof. destruct r, a; cbn; intros H; try contradiction; exact H. Qed.

(* The uncancelled run and the run cancelled at poll k, same fuel, same initial
   state.  No fuel side condition: the cancelled run does a prefix of the work. *)
Theorem prefix_run : forall L E0 k fuel r s a0 s0',
  e_cancel_at E0 = None ->
  run L E0 fuel r s = Ret (a0, s0') ->
  ((polls s0' <= k)%nat -> run L (with_cancel E0 k) fuel r s = Ret (a0, s0')) /\
  ((polls s <= k)%nat -> (k < polls s0')%nat ->
   exists ak sk', run L (with_cancel E0 k) fuel r s = Ret (ak, sk') /\ polls sk' = S k /\ is_cancel ak).
Proof.
  intros L E0 k fuel r s a0 s0' H0 H.
  destruct (sim_run L E0 k H0 fuel r s a0 s0' H) as (_ & A & B). split; [exact A|].
  intros Hs Hlt. destruct (B Hs Hlt) as (ak & sk' & Hk & Hp & HC).
  exists ak, sk'. repeat split; auto. eapply canc_req_is_cancel; exact HC.
Qed.

(* the same in relational dress: two environments equal but for the
   cancellation point, two initial states equal field by field *)
Definition same_but_cancel (E0 Ek : env) (k : nat) : Prop :=
  e_lax Ek = e_lax E0 /\ e_root Ek = e_root E0 /\ e_vars Ek = e_vars E0 /\
  e_vars_tag Ek = e_vars_tag E0 /\ e_useTZ Ek = e_useTZ E0 /\
  e_cancel_at E0 = None /\ e_cancel_at Ek = Some k.

Definition state_eq (a b : st) : Prop :=
  cur a = cur b /\ last_size a = last_size b /\ ign a = ign b /\ verbose a = verbose b /\
  base_addr a = base_addr b /\ base_id a = base_id b /\ last_id a = last_id b /\
  polls a = polls b /\ next_tag a = next_tag b.

Lemma same_but_cancel_eq E0 Ek k : same_but_cancel E0 Ek k -> Ek = with_cancel E0 k /\ e_cancel_at E0 = None.
Proof.
  destruct Ek; unfold same_but_cancel, with_cancel; cbn.
  intros (-> & -> & -> & -> & -> & H & ->). split; [reflexivity|exact H].
Qed.
Lemma state_eq_eq a b : state_eq a b -> a = b.
Proof.
  destruct a, b; unfold state_eq; cbn.
  intros (-> & -> & -> & -> & -> & -> & -> & -> & ->). reflexivity.
Qed.
Lemma state_eq_refl a : state_eq a a.
Proof. unfold state_eq; repeat split. Qed.

Theorem prefix_run_rel : forall L E0 Ek k fuel r s0 sk a0 s0',
  same_but_cancel E0 Ek k -> state_eq s0 sk ->
  run L E0 fuel r s0 = Ret (a0, s0') ->
  ((polls s0' <= k)%nat -> exists sk', run L Ek fuel r sk = Ret (a0, sk') /\ state_eq s0' sk') /\
  ((k < polls s0')%nat -> (polls s0 <= k)%nat ->
   exists ak sk', run L Ek fuel r sk = Ret (ak, sk') /\ polls sk' = S k /\ is_cancel ak).
Proof.
  intros L E0 Ek k fuel r s0 sk a0 s0' HE Hs H.
  apply same_but_cancel_eq in HE. destruct HE as [-> H0]. apply state_eq_eq in Hs. subst sk.
  destruct (prefix_run L E0 k fuel r s0 a0 s0' H0 H) as [A B]. split.
  - intros Hle. exists s0'. split; [apply A; exact Hle|apply state_eq_refl].
  - intros Hlt Hle. apply B; assumption.
Qed.

(* ---------- entry points ---------- *)
Definition with_cancel_o (o : opts) (k : nat) : opts :=
  mkopts (o_vars o) (o_vars_tag o) (o_silent o) (o_useTZ o) (Some k) (o_next_tag o).

Lemma sim_query L fuel p doc o vals k :
  o_cancel_at o = None ->
  sim k canc_i 0 (query L fuel p doc o vals) (query L fuel p doc (with_cancel_o o k) vals).
Proof.
  intros H0. unfold query.
  change (mkEnv p doc (with_cancel_o o k)) with (with_cancel (mkEnv p doc o) k).
  change (newExec p doc (with_cancel_o o k)) with (newExec p doc o).
  assert (HE : e_cancel_at (mkEnv p doc o) = None) by exact H0.
  assert (Hex : forall n v found s,
             sim k canc_i (polls s)
                 (executeItem (mkEnv p doc o) (run L (mkEnv p doc o) fuel) n v found s)
                 (executeItem (with_cancel (mkEnv p doc o) k) (run L (with_cancel (mkEnv p doc o) k) fuel) n v found s)).
  { intros. apply sim_executeItem. apply sim_run. exact HE. }
  destruct (negb (p_lax p) && fnil vals).
  - eapply sim_bind; [apply Hex| |sim_prop].
    intros r s1 Hle. cbv beta iota.
    destruct (st_failed (r_st r)); [apply sim_ret; reflexivity|].
    destruct (r_found r) as [[|]|]; apply sim_ret; reflexivity.
  - apply Hex.
Qed.

(* if the uncancelled run makes n polls: cancelling at k >= n changes nothing,
   cancelling at any k < n makes [query] return the cancellation after k+1 polls *)
Theorem query_cancel_beyond : forall L fuel p doc o vals k r s',
  o_cancel_at o = None -> query L fuel p doc o vals = Ret (r, s') -> (polls s' <= k)%nat ->
  query L fuel p doc (with_cancel_o o k) vals = Ret (r, s').
Proof.
  intros L fuel p doc o vals k r s' H0 H Hle.
  destruct (sim_query L fuel p doc o vals k H0 r s' H) as (_ & A & _). apply A; exact Hle.
Qed.

Theorem query_cancel_within : forall L fuel p doc o vals k r s',
  o_cancel_at o = None -> query L fuel p doc o vals = Ret (r, s') -> (k < polls s')%nat ->
  exists rk sk', query L fuel p doc (with_cancel_o o k) vals = Ret (rk, sk') /\
                 polls sk' = S k /\ r_st rk = SFailed /\ r_err rk = Some ECancel.
Proof.
  intros L fuel p doc o vals k r s' H0 H Hlt.
  destruct (sim_query L fuel p doc o vals k H0 r s' H) as (_ & _ & B).
  destruct (B (Nat.le_0_l k) Hlt) as (rk & sk' & Hk & Hp & HC). exists rk, sk'. auto.
Qed.

(* take the [query] call shared by an entry point and [polls_of] apart *)
Ltac entry2 Hq H Hn :=
  match type of H with
  | bindo (query ?L ?fuel ?p ?doc ?o ?vals) _ = Ret _ =>
      destruct (query L fuel p doc o vals) as [[?r ?s']| |] eqn:Hq;
      cbn [bindo] in H; try discriminate H;
      unfold polls_of in Hn; rewrite Hq in Hn; cbn [bindo] in Hn; injection Hn as <-
  end.

Ltac cancelled_entry H0 Hq Hlt :=
  match goal with
  | |- bindo (query ?L ?fuel ?p ?doc (with_cancel_o ?o ?k) ?vals) _ = _ =>
      let rk := fresh "rk" in let sk := fresh "sk" in let Hk := fresh "Hk" in
      let Hst := fresh "Hst" in let Her := fresh "Her" in
      destruct (query_cancel_within L fuel p doc o vals k _ _ H0 Hq Hlt) as (rk & sk & Hk & _ & Hst & Her);
      rewrite Hk; cbn [bindo]; rewrite Her; reflexivity
  end.

Theorem query_cancel_at_every_poll : forall L fuel p doc o k n q0,
  o_cancel_at o = None -> Query L fuel p doc o = Ret q0 -> polls_of L fuel p doc o (Some []) = Ret n ->
  (k < n)%nat -> Query L fuel p doc (with_cancel_o o k) = Ret (QErr (AErr ECancel)).
Proof.
  intros L fuel p doc o k n q0 H0 H Hn Hlt. unfold Query in *. entry2 Hq H Hn. cancelled_entry H0 Hq Hlt.
Qed.

Theorem first_cancel_at_every_poll : forall L fuel p doc o k n q0,
  o_cancel_at o = None -> First L fuel p doc o = Ret q0 -> polls_of L fuel p doc o (Some []) = Ret n ->
  (k < n)%nat -> First L fuel p doc (with_cancel_o o k) = Ret (FErr (AErr ECancel)).
Proof.
  intros L fuel p doc o k n q0 H0 H Hn Hlt. unfold First in *. entry2 Hq H Hn. cancelled_entry H0 Hq Hlt.
Qed.

Theorem exists_cancel_at_every_poll : forall L fuel p doc o k n q0,
  o_cancel_at o = None -> Exists L fuel p doc o = Ret q0 -> polls_of L fuel p doc o None = Ret n ->
  (k < n)%nat -> Exists L fuel p doc (with_cancel_o o k) = Ret (BErr (AErr ECancel)).
Proof.
  intros L fuel p doc o k n q0 H0 H Hn Hlt. unfold Exists in *. entry2 Hq H Hn. cancelled_entry H0 Hq Hlt.
Qed.

Theorem match_cancel_at_every_poll : forall L fuel p doc o k n q0,
  o_cancel_at o = None -> Match L fuel p doc o = Ret q0 -> polls_of L fuel p doc o (Some []) = Ret n ->
  (k < n)%nat -> Match L fuel p doc (with_cancel_o o k) = Ret (BErr (AErr ECancel)).
Proof.
  intros L fuel p doc o k n q0 H0 H Hn Hlt. unfold Match in *. entry2 Hq H Hn. cancelled_entry H0 Hq Hlt.
Qed.

Theorem eom_cancel_at_every_poll : forall L fuel p doc o k n q0,
  o_cancel_at o = None -> ExistsOrMatch L fuel p doc o = Ret q0 ->
  polls_of L fuel p doc o (if p_pred p then Some [] else None) = Ret n ->
  (k < n)%nat -> ExistsOrMatch L fuel p doc (with_cancel_o o k) = Ret (BErr (AErr ECancel)).
Proof.
  intros L fuel p doc o k n q0 H0 H Hn Hlt. unfold ExistsOrMatch in *. destruct (p_pred p).
  - eapply match_cancel_at_every_poll; eassumption.
  - eapply exists_cancel_at_every_poll; eassumption.
Qed.

(* and cancelling at or after the last poll changes nothing *)
Theorem query_cancel_after_last_poll : forall L fuel p doc o k n q0,
  o_cancel_at o = None -> Query L fuel p doc o = Ret q0 -> polls_of L fuel p doc o (Some []) = Ret n ->
  (n <= k)%nat -> Query L fuel p doc (with_cancel_o o k) = Ret q0.
Proof.
  intros L fuel p doc o k n q0 H0 H Hn Hle. unfold Query in *. entry2 Hq H Hn.
  rewrite (query_cancel_beyond _ _ _ _ _ _ _ _ _ H0 Hq Hle). cbn [bindo]. exact H.
Qed.

Print Assumptions prefix_run.
Print Assumptions prefix_run_rel.
Print Assumptions query_cancel_beyond.
Print Assumptions query_cancel_within.
Print Assumptions query_cancel_at_every_poll.
Print Assumptions first_cancel_at_every_poll.
Print Assumptions exists_cancel_at_every_poll.
Print Assumptions match_cancel_at_every_poll.
Print Assumptions eom_cancel_at_every_poll.
Print Assumptions query_cancel_after_last_poll.
