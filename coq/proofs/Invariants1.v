(* Invariants1.v — the Frame lemma: a call of the executor leaves the mutable
   context (current item, innermost array size, the two error-handling flags,
   the keyvalue base object) as it found it; the id counter and the poll
   counter only grow.  Stdlib only, no axioms. *)
From SJ Require Import lib.Base model.Json model.Ast model.ExecLib model.Leaf model.Exec
     proofs.RunBasics proofs.InvTac.

Definition frame (s s' : st) : Prop :=
  cur s' = cur s /\ last_size s' = last_size s /\ ign s' = ign s /\ verbose s' = verbose s /\
  base_addr s' = base_addr s /\ base_id s' = base_id s /\ last_id s <= last_id s' /\ (polls s <= polls s')%nat.

(* the same, but [ign] is free (inside the loop of executeAnyItem) *)
Definition frame_i (s s' : st) : Prop :=
  cur s' = cur s /\ last_size s' = last_size s /\ verbose s' = verbose s /\
  base_addr s' = base_addr s /\ base_id s' = base_id s /\ last_id s <= last_id s' /\ (polls s <= polls s')%nat.

(* the same, but the base object is free (inside the loop of .keyvalue()) *)
Definition frame_b (s s' : st) : Prop :=
  cur s' = cur s /\ last_size s' = last_size s /\ ign s' = ign s /\ verbose s' = verbose s /\
  last_id s <= last_id s' /\ (polls s <= polls s')%nat.

Ltac frame_tac :=
  unfold frame, frame_i, frame_b in *;
  cbn [cur last_size ign verbose base_addr base_id last_id polls next_tag
       set_cur set_last_size set_ign set_verbose set_base set_last_id set_next_tag tick] in *;
  repeat match goal with H : _ /\ _ |- _ => destruct H end;
  repeat split; first [congruence | lia].

Lemma frame_refl s : frame s s.
Proof. frame_tac. Qed.
Lemma frame_trans a b c : frame a b -> frame b c -> frame a c.
Proof. intros; frame_tac. Qed.
Lemma frame_tick s : frame s (tick s).
Proof. frame_tac. Qed.
Lemma frame_set_verbose s s1 b : frame (set_verbose s b) s1 -> frame s (set_verbose s1 (verbose s)).
Proof. intros; frame_tac. Qed.
Lemma frame_set_cur s s1 v : frame (set_cur s v) s1 -> frame s (set_cur s1 (cur s)).
Proof. intros; frame_tac. Qed.
Lemma frame_set_ign s s1 b : frame (set_ign s b) s1 -> frame s (set_ign s1 (ign s)).
Proof. intros; frame_tac. Qed.
Lemma frame_set_base s s1 a i : frame (set_base s a i) s1 -> frame s (set_base s1 (base_addr s) (base_id s)).
Proof. intros; frame_tac. Qed.
Lemma frame_set_last_size s s1 z : frame (set_last_size s z) s1 -> frame s (set_last_size s1 (last_size s)).
Proof. intros; frame_tac. Qed.

Definition frames (self : req -> st -> outcome (ans * st)) : Prop :=
  forall r s a s', self r s = Ret (a, s') -> frame s s'.

Section FrameBody.
Variable L : ExecLib.
Variable E : env.
Variable self : req -> st -> outcome (ans * st).
Hypothesis Hself : frames self.

Lemma fr_callItem n v found u s x s' : callItem self n v found u s = Ret (x, s') -> frame s s'.
Proof using Hself. intros H. apply callItem_Ret in H. eapply Hself; eauto. Qed.
Lemma fr_callAny n vs found lv f l ig un s x s' : callAny self n vs found lv f l ig un s = Ret (x, s') -> frame s s'.
Proof using Hself. intros H. apply callAny_Ret in H. eapply Hself; eauto. Qed.
Lemma fr_callBool n v c s x s' : callBool self n v c s = Ret (x, s') -> frame s s'.
Proof using Hself. intros H. apply callBool_Ret in H. eapply Hself; eauto. Qed.

Ltac k0 H := first [ apply fr_callItem in H | apply fr_callAny in H | apply fr_callBool in H ].

Lemma fr_returnVerboseError e found s x s' : returnVerboseError e found s = Ret (x, s') -> frame s s'.
Proof. unfold returnVerboseError; intros H; steps H; frame_tac. Qed.
Lemma fr_returnError e found s x s' : returnError e found s = Ret (x, s') -> frame s s'.
Proof. unfold returnError; intros H; steps H; frame_tac. Qed.

Lemma fr_executeItem n v found s x s' : executeItem E self n v found s = Ret (x, s') -> frame s s'.
Proof using Hself. unfold executeItem; apply fr_callItem. Qed.

Ltac k1 H := first [ k0 H | apply fr_returnVerboseError in H | apply fr_returnError in H | apply fr_executeItem in H ].
Ltac calls1 := repeat match goal with H : _ = Ret _ |- _ => k1 H end.

Lemma fr_executeNextItem next v found s x s' : executeNextItem E self next v found s = Ret (x, s') -> frame s s'.
Proof using Hself. unfold executeNextItem; intros H; steps H; calls1; frame_tac. Qed.

Lemma fr_executeItemOptUnwrapResult n v u found s x s' :
  executeItemOptUnwrapResult E self n v u found s = Ret (x, s') -> frame s s'.
Proof using Hself. unfold executeItemOptUnwrapResult; intros H; steps H; calls1; frame_tac. Qed.


Lemma fr_executeItemOptUnwrapResultSilent n v u found s x s' :
  executeItemOptUnwrapResultSilent E self n v u found s = Ret (x, s') -> frame s s'.
Proof using Hself.
  unfold executeItemOptUnwrapResultSilent; intros H; steps H.
  apply fr_executeItemOptUnwrapResult in H0. frame_tac.
Qed.

Ltac k2 H := first [ k1 H | apply fr_executeNextItem in H | apply fr_executeItemOptUnwrapResult in H
                   | apply fr_executeItemOptUnwrapResultSilent in H ].
Ltac calls2 := repeat match goal with H : _ = Ret _ |- _ => k2 H end.

Lemma fr_executePredicate l r v u cb s x s' :
  executePredicate E self l r v u cb s = Ret (x, s') -> frame s s'.
Proof using Hself. unfold executePredicate; intros H; steps H; calls2; frame_tac. Qed.

Ltac k3 H := first [ k2 H | apply fr_executePredicate in H ].
Ltac calls3 := repeat match goal with H : _ = Ret _ |- _ => k3 H end.

Lemma fr_executeBinaryBoolItem op l r v s x s' :
  executeBinaryBoolItem L E self op l r v s = Ret (x, s') -> frame s s'.
Proof using Hself. unfold executeBinaryBoolItem; intros H; steps H; calls3; frame_tac. Qed.

Lemma fr_executeUnaryBoolItem op a v s x s' :
  executeUnaryBoolItem E self op a v s = Ret (x, s') -> frame s s'.
Proof using Hself. unfold executeUnaryBoolItem; intros H; steps H; calls3; frame_tac. Qed.

Ltac k4 H := first [ k3 H | apply fr_executeBinaryBoolItem in H | apply fr_executeUnaryBoolItem in H ].
Ltac calls4 := repeat match goal with H : _ = Ret _ |- _ => k4 H end.

Lemma fr_executeBoolItem n v c s x s' :
  executeBoolItem L E self n v c s = Ret (x, s') -> frame s s'.
Proof using Hself. unfold executeBoolItem; intros H; steps H; calls4; frame_tac. Qed.

Lemma fr_appendBoolResult next found p s x s' :
  appendBoolResult E self next found p s = Ret (x, s') -> frame s s'.
Proof using Hself. unfold appendBoolResult; intros H; steps H; calls4; frame_tac. Qed.

Lemma fr_executeNestedBoolItem n v s x s' :
  executeNestedBoolItem self n v s = Ret (x, s') -> frame s s'.
Proof using Hself. unfold executeNestedBoolItem; intros H; steps H; calls4; frame_tac. Qed.

Ltac k5 H := first [ k4 H | apply fr_executeBoolItem in H | apply fr_appendBoolResult in H
                   | apply fr_executeNestedBoolItem in H ].
Ltac calls5 := repeat match goal with H : _ = Ret _ |- _ => k5 H end.

Lemma fr_anyLoop n level first last ignFlag un : forall vs res dirty s r dirty' s',
  anyLoop L self n vs level first last ignFlag un res dirty s = Ret (r, dirty', s') ->
  frame_i s s' /\ (dirty' = false -> dirty = false /\ ign s' = ign s).
Proof using Hself.
  induction vs as [|v rest IH]; intros res dirty s r dirty' s' H; cbn [anyLoop] in H; steps H.
  all: try match goal with H : anyLoop _ _ _ _ _ _ _ _ _ _ _ _ = Ret _ |- _ => apply IH in H end.
  all: calls5; split_ifs.
  all: split; [frame_tac|].
  all: intros Hd; repeat match goal with H : _ /\ _ |- _ => destruct H end;
    repeat match goal with Hi : _ = false -> _ |- _ => specialize (Hi Hd) end;
    repeat match goal with H : _ /\ _ |- _ => destruct H end;
    rewrite ?orb_false_r in *; try (destruct dirty; discriminate); frame_tac.
Qed.


Lemma fr_executeAnyItem n vs found level first last ignFlag un s x s' :
  executeAnyItem L self n vs found level first last ignFlag un s = Ret (x, s') -> frame s s'.
Proof using Hself.
  unfold executeAnyItem; intros H; steps H.
  all: try match goal with H : anyLoop _ _ _ _ _ _ _ _ _ _ _ _ = Ret _ |- _ =>
         apply fr_anyLoop in H; destruct H as [H Hd] end.
  all: try (destruct b; [clear Hd|specialize (Hd eq_refl)]); frame_tac.
Qed.

Lemma fr_executeItemUnwrapTargetArray n v found s x s' :
  executeItemUnwrapTargetArray self n v found s = Ret (x, s') -> frame s s'.
Proof using Hself. unfold executeItemUnwrapTargetArray; intros H; steps H; calls5; frame_tac. Qed.

Ltac k6 H := first [ k5 H | apply fr_executeAnyItem in H | apply fr_executeItemUnwrapTargetArray in H ].
Ltac calls6 := repeat match goal with H : _ = Ret _ |- _ => k6 H end.

Lemma fr_execLiteral next v found s x s' : execLiteral E self next v found s = Ret (x, s') -> frame s s'.
Proof using Hself. unfold execLiteral; intros H; steps H; calls6; frame_tac. Qed.

Lemma fr_execVariable name next found s x s' : execVariable E self name next found s = Ret (x, s') -> frame s s'.
Proof using Hself. unfold execVariable; intros H; steps H; calls6; frame_tac. Qed.

Lemma fr_execKeyNode key n next v found u s x s' :
  execKeyNode E self key n next v found u s = Ret (x, s') -> frame s s'.
Proof using Hself. unfold execKeyNode; intros H; steps H; calls6; frame_tac. Qed.

Lemma fr_execAnyKey n next v found u s x s' :
  execAnyKey L E self n next v found u s = Ret (x, s') -> frame s s'.
Proof using Hself. unfold execAnyKey; intros H; steps H; calls6; frame_tac. Qed.

Lemma fr_execAnyArray next v found s x s' :
  execAnyArray E self next v found s = Ret (x, s') -> frame s s'.
Proof using Hself. unfold execAnyArray; intros H; steps H; calls6; frame_tac. Qed.

Lemma fr_execLastConst next found s x s' :
  execLastConst E self next found s = Ret (x, s') -> frame s s'.
Proof using Hself. unfold execLastConst; intros H; steps H; calls6; frame_tac. Qed.

Ltac k7 H := first [ k6 H | apply fr_execLiteral in H | apply fr_execVariable in H | apply fr_execKeyNode in H
                   | apply fr_execAnyKey in H | apply fr_execAnyArray in H | apply fr_execLastConst in H ].
Ltac calls7 := repeat match goal with H : _ = Ret _ |- _ => k7 H end.

Lemma fr_execConstNode k n next v found u s x s' :
  execConstNode L E self k n next v found u s = Ret (x, s') -> frame s s'.
Proof using Hself. unfold execConstNode; intros H; steps H; calls7; frame_tac. Qed.

Lemma fr_execAnyNode first last next v found s x s' :
  execAnyNode L E self first last next v found s = Ret (x, s') -> frame s s'.
Proof using Hself. unfold execAnyNode; intros H; steps H; calls7; split_ifs; frame_tac. Qed.

Lemma fr_getArrayIndex n v s x s' : getArrayIndex L E self n v s = Ret (x, s') -> frame s s'.
Proof using Hself. unfold getArrayIndex; intros H; steps H; calls7; frame_tac. Qed.

Ltac k8 H := first [ k7 H | apply fr_execConstNode in H | apply fr_execAnyNode in H | apply fr_getArrayIndex in H ].
Ltac calls8 := repeat match goal with H : _ = Ret _ |- _ => k8 H end.

Lemma fr_execSubscript sub v size s x s' : execSubscript L E self sub v size s = Ret (x, s') -> frame s s'.
Proof using Hself. unfold execSubscript; intros H; steps H; calls8; frame_tac. Qed.

Lemma fr_indexLoop next : forall els res s r stop s',
  indexLoop E self next els res s = Ret (r, stop, s') -> frame s s'.
Proof using Hself.
  induction els as [|v rest IH]; intros res s r stop s' H; cbn [indexLoop] in H; steps H.
  all: try match goal with H : indexLoop _ _ _ _ _ _ = Ret _ |- _ => apply IH in H end.
  all: calls8; frame_tac.
Qed.

Ltac k9 H := first [ k8 H | apply fr_execSubscript in H | apply fr_indexLoop in H ].
Ltac calls9 := repeat match goal with H : _ = Ret _ |- _ => k9 H end.

Lemma fr_subsLoop next v arr size : forall subs res s r s',
  subsLoop L E self subs next v arr size res s = Ret (r, s') -> frame s s'.
Proof using Hself.
  induction subs as [|sub rest IH]; intros res s r s' H; cbn [subsLoop] in H; steps H.
  all: try match goal with H : subsLoop _ _ _ _ _ _ _ _ _ _ = Ret _ |- _ => apply IH in H end.
  all: calls9; frame_tac.
Qed.

Lemma fr_execArrayIndex subs next v found s x s' :
  execArrayIndex L E self subs next v found s = Ret (x, s') -> frame s s'.
Proof using Hself.
  unfold execArrayIndex; intros H; steps H.
  all: try match goal with H : subsLoop _ _ _ _ _ _ _ _ _ _ = Ret _ |- _ => apply fr_subsLoop in H end.
  all: calls9; frame_tac.
Qed.

Lemma fr_unaryLoop minus next : forall seq found res s r s',
  unaryLoop L E self minus next seq found res s = Ret (r, s') -> frame s s'.
Proof using Hself.
  induction seq as [|v rest IH]; intros found res s r s' H; cbn [unaryLoop] in H; steps H.
  all: try match goal with H : unaryLoop _ _ _ _ _ _ _ _ _ = Ret _ |- _ => apply IH in H end.
  all: calls9; frame_tac.
Qed.

Ltac k10 H := first [ k9 H | apply fr_execArrayIndex in H | apply fr_unaryLoop in H ].
Ltac calls10 := repeat match goal with H : _ = Ret _ |- _ => k10 H end.

Lemma fr_execUnaryMathExpr minus a next v found s x s' :
  execUnaryMathExpr L E self minus a next v found s = Ret (x, s') -> frame s s'.
Proof using Hself. unfold execUnaryMathExpr; intros H; steps H; calls10; frame_tac. Qed.

Lemma fr_execBinaryMathExpr op l r next v found s x s' :
  execBinaryMathExpr L E self op l r next v found s = Ret (x, s') -> frame s s'.
Proof using Hself. unfold execBinaryMathExpr; intros H; steps H; calls10; frame_tac. Qed.

Lemma fr_execLeaf unwraps lf n next v found u s x s' :
  execLeaf E self unwraps lf n next v found u s = Ret (x, s') -> frame s s'.
Proof using Hself. unfold execLeaf; intros H; steps H; calls10; frame_tac. Qed.

Lemma fr_kvLoop members id next : forall keys res s r s',
  kvLoop E self keys members id next res s = Ret (r, s') -> frame_b s s'.
Proof using Hself.
  induction keys as [|k rest IH]; intros res s r s' H; cbn [kvLoop] in H; steps H.
  all: try match goal with H : kvLoop _ _ _ _ _ _ _ _ = Ret _ |- _ => apply IH in H end.
  all: calls10; frame_tac.
Qed.

Lemma fr_executeKeyValueMethod n next v found u s x s' :
  executeKeyValueMethod E self n next v found u s = Ret (x, s') -> frame s s'.
Proof using Hself.
  unfold executeKeyValueMethod; intros H; steps H.
  all: try match goal with H : kvLoop _ _ _ _ _ _ _ _ = Ret _ |- _ => apply fr_kvLoop in H end.
  all: calls10; frame_tac.
Qed.

Ltac k11 H := first [ k10 H | apply fr_execUnaryMathExpr in H | apply fr_execBinaryMathExpr in H
                    | apply fr_execLeaf in H | apply fr_executeKeyValueMethod in H ].
Ltac calls11 := repeat match goal with H : _ = Ret _ |- _ => k11 H end.

Lemma fr_execMethodNode m n next v found u s x s' :
  execMethodNode L E self m n next v found u s = Ret (x, s') -> frame s s'.
Proof using Hself. unfold execMethodNode; intros H; steps H; calls11; frame_tac. Qed.

Lemma fr_execBoolNode n next v found s x s' :
  execBoolNode E self n next v found s = Ret (x, s') -> frame s s'.
Proof using Hself. unfold execBoolNode; intros H; steps H; calls11; frame_tac. Qed.

Ltac k12 H := first [ k11 H | apply fr_execMethodNode in H | apply fr_execBoolNode in H ].
Ltac calls12 := repeat match goal with H : _ = Ret _ |- _ => k12 H end.

Lemma fr_execBinaryNode op l r n next v found s x s' :
  execBinaryNode L E self op l r n next v found s = Ret (x, s') -> frame s s'.
Proof using Hself. unfold execBinaryNode; intros H; steps H; calls12; frame_tac. Qed.

Lemma fr_execUnaryNode op a n next v found u s x s' :
  execUnaryNode L E self op a n next v found u s = Ret (x, s') -> frame s s'.
Proof using Hself. unfold execUnaryNode; intros H; steps H; calls12; frame_tac. Qed.

Ltac k13 H := first [ k12 H | apply fr_execBinaryNode in H | apply fr_execUnaryNode in H ].
Ltac calls13 := repeat match goal with H : _ = Ret _ |- _ => k13 H end.

Lemma fr_executeItemOptUnwrapTarget n v found u s x s' :
  executeItemOptUnwrapTarget L E self n v found u s = Ret (x, s') -> frame s s'.
Proof using Hself. unfold executeItemOptUnwrapTarget; intros H; steps H; calls13; frame_tac. Qed.

(* executeItemOptUnwrapTarget polls exactly once itself *)
Lemma fr_target_polls n v found u s x s' :
  executeItemOptUnwrapTarget L E self n v found u s = Ret (x, s') -> (S (polls s) <= polls s')%nat.
Proof using Hself. unfold executeItemOptUnwrapTarget; intros H; steps H; calls13; frame_tac. Qed.

Lemma fr_body : frames (body L E self).
Proof using Hself.
  intros r s a s' H. destruct r; cbn [body] in H; steps H.
  - apply fr_executeItemOptUnwrapTarget in H0; exact H0.
  - apply fr_executeAnyItem in H0; exact H0.
  - apply fr_executeBoolItem in H0; exact H0.
Qed.

End FrameBody.

Theorem frame_run : forall L E fuel r s a s', run L E fuel r s = Ret (a, s') -> frame s s'.
Proof.
  intros L E. apply (run_inv L E (fun _ s _ s' => frame s s')).
  intros self Hself. apply (fr_body L E self). exact Hself.
Qed.
Print Assumptions frame_run.
