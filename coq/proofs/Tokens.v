(* Tokens.v — the token-level image of the printer: [tok_path L p] is the
   token list that lexing [print_path L p] is expected to produce
   (proofs/LexPrint.v: lex L (print_path L p) = tok_path L p) and that the
   parser maps back to p (proofs/ParsePrint.v: parse_tokens L (tok_path L p)
   = POk p).  Every definition mirrors model/Printer.v clause by clause. *)
From Coq Require Import Floats.SpecFloat.
From SJ Require Import lib.Base lib.Utf8 lib.GoLib model.Json model.Ast model.Lexer model.Parser
  model.Printer.
Local Open Scope string_scope.
Local Open Scope Z_scope.
Local Open Scope list_scope.

(* a single-rune token, with the text scanOperator / Lex give it *)
Definition ctok (c : Z) : token := mktok (TChar c) (string_of_runes [c]).
(* a keyword token as the printer spells it (lower case) *)
Definition kwt (k : kw) (w : string) : token := mktok (TKw k) w.

Definition binop_toks (op : binop) : list token :=
  match op with
  | BAnd => [mktok TAnd "&&"] | BOr => [mktok TOr "||"]
  | BEq => [mktok TEqual "=="] | BNe => [mktok TNotEqual "!="]
  | BLt => [mktok TLess "<"] | BGt => [mktok TGreater ">"]
  | BLe => [mktok TLessEq "<="] | BGe => [mktok TGreaterEq ">="]
  | BStartsWith => [kwt KStarts "starts"; kwt KWith "with"]
  | BAdd => [ctok 43] | BSub => [ctok 45] | BMul => [ctok 42] | BDiv => [ctok 47] | BMod => [ctok 37]
  end.

Definition const_toks (k : constk) (inKey : bool) : list token :=
  match k with
  | CRoot => [ctok 36]
  | CCurrent => [ctok 64]
  | CLast => [kwt KLast "last"]
  | CAnyArray => [ctok 91; ctok 42; ctok 93]
  | CAnyKey => (if inKey then [ctok 46] else []) ++ [ctok 42]
  | CTrue => [kwt KTrue "true"]
  | CFalse => [kwt KFalse "false"]
  | CNull => [kwt KNull "null"]
  end.

Definition meth_kw (m : meth) : kw * string :=
  match m with
  | MAbs => (KAbs, "abs") | MSize => (KSize, "size") | MType => (KType, "type")
  | MFloor => (KFloor, "floor") | MCeiling => (KCeiling, "ceiling") | MDouble => (KDouble, "double")
  | MKeyValue => (KKeyvalue, "keyvalue") | MBigInt => (KBigint, "bigint")
  | MBoolean => (KBoolean, "boolean") | MInteger => (KInteger, "integer")
  | MNumber => (KNumber, "number") | MString => (KStringfunc, "string")
  end.

Definition dtop_kw (op : dtop) : kw * string :=
  match op with
  | DDateTime => (KDatetime, "datetime") | DDate => (KDate, "date") | DTime => (KTime, "time")
  | DTimeTZ => (KTimeTz, "time_tz") | DTimestamp => (KTimestamp, "timestamp")
  | DTimestampTZ => (KTimestampTz, "timestamp_tz")
  end.

Definition tparen (b : bool) (l : list token) : list token :=
  if b then ctok 40 :: l ++ [ctok 41] else l.

Definition regex_flag_text (f : Z) : string :=
  ((if (0 <? Z.land f reICase)%Z then "i" else "") ++
   (if (0 <? Z.land f reDotAll)%Z then "s" else "") ++
   (if (0 <? Z.land f reMLine)%Z then "m" else "") ++
   (if (0 <? Z.land f reWSpace)%Z then "x" else "") ++
   (if (0 <? Z.land f reQuote)%Z then "q" else ""))%string.

Section WithLib.
Variable L : GoLib.

(* a printed integer: FormatInt writes '-' and the magnitude *)
Definition int_toks (z : Z) : list token :=
  if z <? 0 then [ctok 45; mktok TInt (format_int L (- z))] else [mktok TInt (format_int L z)].

(* a printed (non-integral) numeric *)
Definition num_toks (f : f64) : list token :=
  if f64_sign f then [ctok 45; mktok TNumeric (format_float_json L (f64_neg L f))]
  else [mktok TNumeric (format_float_json L f)].

Definition level_toks (x : Z) : list token :=
  if x =? max_uint32 then [kwt KLast "last"] else [mktok TInt (format_int L x)].

Definition any_toks (first last : Z) : list token :=
  if (first =? 0) && (last =? max_uint32) then [mktok TAny "**"]
  else if first =? last then [mktok TAny "**"; ctok 123] ++ level_toks first ++ [ctok 125]
  else [mktok TAny "**"; ctok 123] ++ level_toks first ++ [kwt KTo "to"] ++ level_toks last ++ [ctok 125].

Fixpoint tok_step (s : step) (has_next inKey withParens : bool) {struct s} : list token :=
  let tc := fix tc (c : list step) (inKey withParens : bool) {struct c} : list token :=
    match c with
    | [] => []
    | x :: r =>
        tok_step x (match r with [] => false | _ => true end) inKey withParens ++ tc r true true
    end in
  match s with
  | SConst k => const_toks k inKey
  | SStr t => [mktok TString t]
  | SVar t => [mktok TVariable t]
  | SKey t => (if inKey then [ctok 46] else []) ++ [mktok TString t]
  | SInteger z => tparen has_next (int_toks z)
  | SNumeric f => tparen has_next (num_toks f)
  | SMeth m => [ctok 46; kwt (fst (meth_kw m)) (snd (meth_kw m)); ctok 40; ctok 41]
  | SDecimal p sc =>
      [ctok 46; kwt KDecimal "decimal"; ctok 40] ++
      (match p with Some z => int_toks z | None => [] end) ++
      (match sc with Some z => ctok 44 :: int_toks z | None => [] end) ++ [ctok 41]
  | SDt op tmpl prec =>
      [ctok 46; kwt (fst (dtop_kw op)) (snd (dtop_kw op)); ctok 40] ++
      (match tmpl, prec with
       | Some t, _ => [mktok TString t]
       | None, Some z => int_toks z
       | None, None => []
       end) ++ [ctok 41]
  | SAny first last => (if inKey then [ctok 46] else []) ++ any_toks first last
  | SBin op l r =>
      tparen withParens
        (tc l false (Nat.leb (chain_prio l) (binop_prio op)) ++ binop_toks op ++
         tc r false (Nat.leb (chain_prio r) (binop_prio op)))
  | SUn UExists a => [kwt KExists "exists"; ctok 40] ++ tc a false false ++ [ctok 41]
  | SUn UNot a => [mktok TNot "!"; ctok 40] ++ tc a false false ++ [ctok 41]
  | SUn UFilter a => [ctok 63; ctok 40] ++ tc a false false ++ [ctok 41]
  | SUn UIsUnknown a => [ctok 40] ++ tc a false false ++ [ctok 41; kwt KIs "is"; kwt KUnknown "unknown"]
  | SUn UPlus a => tparen withParens (ctok 43 :: tc a false (Nat.leb (chain_prio a) 5%nat))
  | SUn UMinus a => tparen withParens (ctok 45 :: tc a false (Nat.leb (chain_prio a) 5%nat))
  | SRegex a pat fl =>
      tparen withParens
        (tc a false true ++ [kwt KLikeRegex "like_regex"; mktok TString pat] ++
         (if fl =? 0 then [] else [kwt KFlag "flag"; mktok TString (regex_flag_text fl)]))
  | SIndex subs =>
      [ctok 91] ++
      (fix ts (l : list (list step * option (list step))) (first : bool) : list token :=
         match l with
         | [] => []
         | (a, b) :: r =>
             (if first then [] else [ctok 44]) ++ tc a false false ++
             (match b with Some c => kwt KTo "to" :: tc c false false | None => [] end) ++ ts r false
         end) subs true ++ [ctok 93]
  end.

Fixpoint tok_chain (c : chain) (inKey withParens : bool) : list token :=
  match c with
  | [] => []
  | x :: r =>
      tok_step x (match r with [] => false | _ => true end) inKey withParens ++ tok_chain r true true
  end.

Definition tok_path (p : path) : list token :=
  (if p_lax p then [] else [kwt KStrict "strict"]) ++ tok_chain (p_root p) false true.

End WithLib.
