(* RefineClosed.v — the refinement theorems of proofs/Refine.v with the Frame
   lemma discharged from proofs/Invariants1.v.  These are the statements the
   property files cite.  Stdlib only, no axioms. *)
From SJ Require Import lib.Base model.Json model.Ast model.ExecLib model.Leaf model.Exec
  spec.Sem spec.Proj proofs.RunBasics proofs.RefineDefs proofs.Refine.
From SJ Require proofs.Invariants1.

Lemma frame_law_holds : frame_law.
Proof. exact Invariants1.frame_run. Qed.

(* The executor model refines the trace specification (taken with quirks_code),
   for every fuel, library, environment without cancellation, and state. *)
Theorem refine_run (L : ExecLib) (E : env) (C : cenv) :
  agrees E C -> e_cancel_at E = None -> members_canon L ->
  forall fuel,
  (forall n v found u s r s',
      run L E fuel (RItem n v found u) s = Ret (AItem r, s') ->
      n <> [] -> no_kv n = true -> exists_ok n = true -> ne_ops n = true ->
      (found = None -> unary_tail_free n = true) ->
      R found (sem_chain L C quirks_code n (cur s) (last_size s) (ign s) u v) (verbose s) r) /\
  (forall n vs found level first last ignFlag un s r s',
      run L E fuel (RAny n vs found level first last ignFlag un) s = Ret (AItem r, s') ->
      no_kv n = true -> exists_ok n = true -> ne_ops n = true ->
      (found = None -> unary_tail_free n = true) ->
      R found (descend (fun x => sem_chain L C quirks_code n (cur s) (last_size s) (ignFlag || ign s) un x)
                 vs level first last) (verbose s) r) /\
  (forall q next v c s p s',
      run L E fuel (RBool (q :: next) v c) s = Ret (ABool p, s') ->
      no_kv (q :: next) = true -> exists_ok (q :: next) = true -> ne_ops (q :: next) = true ->
      (c = false -> next = []) ->
      (p_out p, option_map eclass (p_err p)) =
      (fst (sem_pred L C quirks_code q (cur s) (last_size s) (ign s) v),
       option_map eclass (snd (sem_pred L C quirks_code q (cur s) (last_size s) (ign s) v)))).
Proof. intros Hag Hnc Hmc. exact (refine_run_f frame_law_holds L E C Hag Hnc Hmc). Qed.

Section Entry.
Variables (L : ExecLib) (p : path) (doc : json) (o : opts).
Hypothesis Hnc : o_cancel_at o = None.
Hypothesis Hmc : members_canon L.
Hypothesis Hne : p_root p <> [].
Hypothesis Hkv : no_kv (p_root p) = true.
Hypothesis Hex : exists_ok (p_root p) = true.
Hypothesis Hno : ne_ops (p_root p) = true.

Theorem query_is_trace fuel q :
  Query L fuel p doc o = Ret q ->
  qres_sim q (p_query (o_silent o) (sem_of L quirks_code p doc o)).
Proof. apply query_is_trace_f; auto using frame_law_holds. Qed.

Theorem first_is_trace fuel q :
  First L fuel p doc o = Ret q ->
  fres_sim q (p_first (o_silent o) (sem_of L quirks_code p doc o)).
Proof. apply first_is_trace_f; auto using frame_law_holds. Qed.

Theorem match_is_trace fuel q :
  Match L fuel p doc o = Ret q ->
  bres_sim q (p_match (o_silent o) (sem_of L quirks_code p doc o)).
Proof. apply match_is_trace_f; auto using frame_law_holds. Qed.

Theorem exists_is_trace fuel b :
  Exists L fuel p doc o = Ret b ->
  (p_lax p = true -> unary_tail_free (p_root p) = true) ->
  bres_sim b (p_exists (p_lax p) (o_silent o) (sem_of L quirks_code p doc o)).
Proof. apply exists_is_trace_f; auto using frame_law_holds. Qed.

Theorem eom_is_trace fuel b :
  ExistsOrMatch L fuel p doc o = Ret b ->
  (p_pred p = false -> p_lax p = true -> unary_tail_free (p_root p) = true) ->
  bres_sim b (p_eom (p_lax p) (p_pred p) (o_silent o) (sem_of L quirks_code p doc o)).
Proof. apply eom_is_trace_f; auto using frame_law_holds. Qed.
End Entry.

Print Assumptions refine_run.
Print Assumptions query_is_trace.
Print Assumptions first_is_trace.
Print Assumptions match_is_trace.
Print Assumptions exists_is_trace.
Print Assumptions eom_is_trace.
