(* TotalBase.v — vocabulary of the totality / safety / classification proofs
   about [Exec.run]: depth of values, the invariants [num_ok] / [no_dt], the
   law the map-iteration oracle must obey, the syntactic well-formedness
   [wf_exec_path], and the termination measure.  Stdlib only, no axioms. *)
From SJ Require Import lib.Base model.Json model.Ast model.ExecLib model.Leaf model.Exec.
Local Open Scope nat_scope.

(* ---------- depth ---------- *)
Definition maxd (l : list json) : nat := fold_right (fun x a => Nat.max (json_depth x) a) O l.

Lemma depth_arr t l : json_depth (JArr t l) = S (maxd l).
Proof. reflexivity. Qed.

Lemma depth_obj t l : json_depth (JObj t l) = S (maxd (map snd l)).
Proof.
  cbn [json_depth]. f_equal. unfold maxd.
  induction l as [|x r IH]; cbn [fold_right map]; [reflexivity|rewrite IH; reflexivity].
Qed.

Lemma maxd_in x l : In x l -> json_depth x <= maxd l.
Proof.
  induction l as [|y l IH]; cbn [In maxd fold_right]; [tauto|].
  intros [->|H]; [lia|]. specialize (IH H). unfold maxd in IH. lia.
Qed.

Lemma maxd_le l d : (forall x, In x l -> json_depth x <= d) -> maxd l <= d.
Proof.
  induction l as [|y l IH]; cbn [maxd fold_right]; intros H; [lia|].
  assert (json_depth y <= d) by (apply H; left; reflexivity).
  assert (maxd l <= d) by (apply IH; intros x Hx; apply H; right; exact Hx).
  unfold maxd in *. lia.
Qed.

Lemma maxd_cons x l : maxd (x :: l) = Nat.max (json_depth x) (maxd l).
Proof. reflexivity. Qed.

(* "depth of the list seen as an array": 0 for the empty list *)
Definition ld (vs : list json) : nat := match vs with [] => O | _ => S (maxd vs) end.

Lemma ld_le_arr t l : ld l <= json_depth (JArr t l).
Proof. rewrite depth_arr. destruct l; cbn [ld]; lia. Qed.

Lemma ld_cons_tail x l : ld l <= ld (x :: l).
Proof. destruct l; cbn [ld]; [lia|]. rewrite (maxd_cons x). lia. Qed.

Lemma ld_cons_head x l : json_depth x < ld (x :: l).
Proof. cbn [ld]. rewrite maxd_cons. lia. Qed.

Lemma ld_le l d : (forall x, In x l -> json_depth x < d) -> l <> [] -> ld l <= d.
Proof.
  intros H Hl. destruct l as [|y l]; [congruence|]. cbn [ld].
  destruct d as [|d]; [specialize (H y (or_introl eq_refl)); lia|].
  apply le_n_S. apply maxd_le. intros x Hx. specialize (H x Hx). lia.
Qed.

Lemma lookup_in k l v : lookup k l = Some v -> In v (map snd l).
Proof.
  induction l as [|[k' x] l IH]; cbn [lookup map snd In]; [discriminate|].
  destruct (String.eqb k k'); [intros H; injection H as ->; left; reflexivity|intros H; right; auto].
Qed.

(* ---------- predicates on all the leaves of a value ---------- *)
Fixpoint jall (P : json -> Prop) (v : json) : Prop :=
  match v with
  | JArr _ l => fold_right (fun x a => jall P x /\ a) True l
  | JObj _ l => fold_right (fun x a => jall P (snd x) /\ a) True l
  | _ => P v
  end.

Lemma jall_arr P t l : jall P (JArr t l) <-> Forall (jall P) l.
Proof.
  cbn [jall]. induction l as [|x r IH]; cbn [fold_right].
  - split; auto.
  - split; [intros [H1 H2]; constructor; tauto|intros H; inversion H; subst; tauto].
Qed.

Lemma jall_obj P t l : jall P (JObj t l) <-> Forall (jall P) (map snd l).
Proof.
  cbn [jall]. induction l as [|x r IH]; cbn [fold_right map].
  - split; auto.
  - split; [intros [H1 H2]; constructor; tauto|intros H; inversion H; subst; tauto].
Qed.

Lemma jall_impl (P Q : json -> Prop) : (forall v, P v -> Q v) -> forall v, jall P v -> jall Q v.
Proof.
  intros HPQ. induction v using json_ind'; try (cbn [jall]; apply HPQ).
  - rewrite !jall_arr. intros HA. rewrite Forall_forall in *. auto.
  - rewrite !jall_obj. intros HA. rewrite Forall_forall in *.
    intros x Hx. apply in_map_iff in Hx as [[k y] [<- Hy]]. cbn [snd].
    apply (H (k, y) Hy). apply HA. apply in_map_iff. exists (k, y). auto.
Qed.

(* every json.Number inside v has a text that strconv.ParseFloat accepts
   (possibly with a range error) *)
Definition num_leaf (L : ExecLib) (v : json) : Prop :=
  match v with JNum (NJs s) => xl_parse_float L s <> None | _ => True end.
Definition num_ok (L : ExecLib) (v : json) : Prop := jall (num_leaf L) v.

(* no datetime value inside v *)
Definition dt_leaf (v : json) : Prop := match v with JDt _ => False | _ => True end.
Definition no_dt (v : json) : Prop := jall dt_leaf v.

(* The oracle for the iteration order of a Go map returns values of that map.
   (Without this law the bound below is false: an [xl_members] that answers
   with a fixed object makes ".**" descend for ever — see the end of Total.v.) *)
Definition members_ok (L : ExecLib) : Prop :=
  forall l x, In x (xl_members L l) -> In x (map snd l).

(* ---------- sizes of sub-chains ---------- *)
Lemma step_size_bin op l r : step_size (SBin op l r) = S (chain_size l + chain_size r).
Proof. reflexivity. Qed.
Lemma step_size_un op a : step_size (SUn op a) = S (chain_size a).
Proof. reflexivity. Qed.
Lemma step_size_regex a p f : step_size (SRegex a p f) = S (chain_size a).
Proof. reflexivity. Qed.
Lemma step_size_index subs : step_size (SIndex subs) = S (subs_size subs).
Proof.
  cbn [step_size]. f_equal. unfold subs_size.
  induction subs as [|[a b] r IH]; cbn [fold_right fst snd]; [reflexivity|].
  rewrite <- IH. reflexivity.
Qed.
Lemma subs_size_cons sub rest :
  subs_size (sub :: rest) =
  S (chain_size (fst sub) + match snd sub with Some c => chain_size c | None => O end) + subs_size rest.
Proof. reflexivity. Qed.
Lemma chain_size_cons x r : chain_size (x :: r) = step_size x + chain_size r.
Proof. reflexivity. Qed.

(* ---------- what the executor needs of a path (a consequence of the parser image) ---------- *)
Definition is_pred_step (s : step) : bool :=
  match s with
  | SBin op _ _ => is_bool_binop op
  | SUn (UNot | UExists | UIsUnknown) _ => true
  | SRegex _ _ _ => true
  | _ => false
  end.
Definition is_pred_chain (c : chain) : bool := match c with [s] => is_pred_step s | _ => false end.
Definition nonempty (c : chain) : bool := negb (cnil c).

Fixpoint wf_step (s : step) : bool :=
  let wfc := fix wfc (c : list step) : bool :=
    match c with [] => true | x :: r => wf_step x && wfc r end in
  match s with
  | SBin op l r =>
      (match op with BAnd | BOr => is_pred_chain l && is_pred_chain r | _ => nonempty l && nonempty r end)
      && (wfc l && wfc r)
  | SUn op a =>
      (match op with UNot | UIsUnknown | UFilter => is_pred_chain a | _ => nonempty a end) && wfc a
  | SRegex a _ _ => nonempty a && wfc a
  | SDt _ _ _ => false
  | SIndex subs =>
      (fix ss (l : list (list step * option (list step))) : bool :=
         match l with
         | [] => true
         | (a, b) :: r =>
             (nonempty a && wfc a && match b with Some c => nonempty c && wfc c | None => true end) && ss r
         end) subs
  | _ => true
  end.

Fixpoint wf_chainb (c : chain) : bool :=
  match c with [] => true | x :: r => wf_step x && wf_chainb r end.

Definition wf_sub (ab : chain * option chain) : bool :=
  nonempty (fst ab) && wf_chainb (fst ab) &&
  match snd ab with Some c => nonempty c && wf_chainb c | None => true end.

Lemma wf_step_bin op l r :
  wf_step (SBin op l r) =
  (match op with BAnd | BOr => is_pred_chain l && is_pred_chain r | _ => nonempty l && nonempty r end)
  && (wf_chainb l && wf_chainb r).
Proof. reflexivity. Qed.
Lemma wf_step_un op a :
  wf_step (SUn op a) =
  (match op with UNot | UIsUnknown | UFilter => is_pred_chain a | _ => nonempty a end) && wf_chainb a.
Proof. reflexivity. Qed.
Lemma wf_step_regex a p f : wf_step (SRegex a p f) = nonempty a && wf_chainb a.
Proof. reflexivity. Qed.
Lemma wf_step_index subs : wf_step (SIndex subs) = forallb wf_sub subs.
Proof.
  cbn [wf_step]. induction subs as [|[a b] r IH]; cbn [forallb]; [reflexivity|].
  rewrite <- IH. reflexivity.
Qed.

(* every chain that is executed is non-empty; the operands of && || ! "is
   unknown" and of a filter are single predicate nodes; no datetime method *)
Definition wf_exec_path (p : path) : Prop :=
  nonempty (p_root p) = true /\ wf_chainb (p_root p) = true.

(* request [RBool n v canHaveNext] on a well-formed chain *)
Definition wfb (n : chain) (c : bool) : bool :=
  match n with
  | stp :: next => is_pred_step stp && (c || cnil next) && wf_chainb n
  | [] => false
  end.

Lemma is_pred_chain_wfb a : is_pred_chain a = true -> wf_chainb a = true -> wfb a false = true.
Proof.
  destruct a as [|x [|y r]]; cbn [is_pred_chain]; try discriminate.
  intros H1 H2. unfold wfb. rewrite H1, H2. reflexivity.
Qed.

(* ---------- the measure ---------- *)
Section Measure.
Variable D : nat.
Definition K : nat := 2 * D + 6.
Definition m (q : req) : nat :=
  match q with
  | RItem n _ _ u => chain_size n * K + (if u then D + 3 else 1)
  | RAny n vs _ _ _ _ _ un => chain_size n * K + (if un then D + 4 else 2) + ld vs
  | RBool n _ _ => chain_size n * K
  end.
End Measure.
