(* PropGlue.v — the few corollaries the property files (props/C07.v, C08.v,
   C20.v) cite that combine lemmas of different proof files, and the
   vm_compute checks that tie the model to the tables regenerated from the Go
   sources (gen/RaiseSites.v).  Stdlib only, no axioms. *)
From Coq Require Import String List.
From SJ Require Import lib.Base model.Json model.Ast model.ExecLib model.Leaf model.Exec
     spec.Sem spec.Proj proofs.ProjProofs proofs.RefineDefs proofs.Refine proofs.RefineClosed proofs.DescendProofs proofs.SubscriptProofs proofs.StructProofs
     gen.RaiseSites model.RaiseExpect.
From SJ Require proofs.Invariants proofs.KleeneProofs proofs.RefineWitness.
Import ListNotations.

(* ---------- C07: transfer of C07_lax to the executor model ----------
   For a tight accessor/filter path in lax mode, whatever Query of the model
   returns is a list of items — never an error, with or without WithSilent. *)
Theorem C07_lax_model (L : ExecLib) (B : Z) (p : path) (doc : json) (o : opts) :
  1 <= B -> B <= max_int32 + 1 -> to_int64_law L ->
  o_cancel_at o = None -> members_canon L ->
  p_root p <> [] -> no_kv (p_root p) = true -> exists_ok (p_root p) = true -> ne_ops (p_root p) = true ->
  p_lax p = true -> tight_chain B (p_root p) = true ->
  wf_vals L (mkcenv (p_lax p) doc (o_vars o) (o_useTZ o)) B ->
  forall fuel q, Query L fuel p doc o = Ret q ->
  q = QItems (fst (sem_of L quirks_code p doc o)).
Proof.
  intros HB1 HB2 Hlaw Hnc Hmc Hne Hkv Hex Hno Hlax Ht Hwf fuel q H.
  pose proof (query_is_trace L p doc o Hnc Hmc Hne Hkv Hex Hno fuel q H) as S.
  pose proof (C07_lax L (mkcenv (p_lax p) doc (o_vars o) (o_useTZ o)) quirks_code B HB1 HB2 Hlaw (p_root p) Hlax Ht Hwf) as N.
  unfold p_query in S. fold (sem_of L quirks_code p doc o) in N. rewrite N in S.
  destruct q as [l|e]; [cbn [qres_sim] in S; now subst l | contradiction S].
Qed.

(* a failure of such a path in strict mode is a suppressible one: the model's
   Query returns an error of the class of ErrVerbose, or items *)
Theorem C07_strict_model (L : ExecLib) (B : Z) (p : path) (doc : json) (o : opts) :
  1 <= B -> B <= max_int32 + 1 -> to_int64_law L ->
  o_cancel_at o = None -> members_canon L ->
  p_root p <> [] -> no_kv (p_root p) = true -> exists_ok (p_root p) = true -> ne_ops (p_root p) = true ->
  tight_chain B (p_root p) = true ->
  wf_vals L (mkcenv (p_lax p) doc (o_vars o) (o_useTZ o)) B ->
  forall fuel q, Query L fuel p doc o = Ret q ->
  match q with
  | QItems l => l = fst (sem_of L quirks_code p doc o)
  | QErr (AErr e) => is_verbose e = true /\ o_silent o = false
  | QErr ANull => False
  end.
Proof.
  intros HB1 HB2 Hlaw Hnc Hmc Hne Hkv Hex Hno Ht Hwf fuel q H.
  pose proof (query_is_trace L p doc o Hnc Hmc Hne Hkv Hex Hno fuel q H) as S.
  pose proof (C07_strict_suppressible L (mkcenv (p_lax p) doc (o_vars o) (o_useTZ o)) quirks_code B HB1 HB2 Hlaw (p_root p)) as V.
  fold (sem_of L quirks_code p doc o) in V. unfold p_query, Proj.vis in S.
  destruct (snd (sem_of L quirks_code p doc o)) as [e|].
  - rewrite (V e Ht Hwf eq_refl) in S. cbn [andb] in S.
    destruct (o_silent o); destruct q as [l|[e'|]]; cbn [qres_sim apierr_sim] in S; try contradiction; auto.
    split; [|reflexivity]. rewrite (is_verbose_class _ _ S). now apply V.
  - destruct q as [l|[e'|]]; cbn [qres_sim] in S; try contradiction; auto.
Qed.

(* non-vacuity: the hypotheses of the two transfer theorems hold of a concrete
   library, path and document ($.a.b ? (@ > 0) of StructProofs), and the model
   answers as they say: items in lax mode, a suppressible error in strict mode *)
Definition o_plain : opts := mkopts [] 0 false false None 100.
Example C07_model_witness :
  1 <= sB /\ sB <= max_int32 + 1 /\ to_int64_law sL /\ members_canon sL /\
  o_cancel_at o_plain = None /\ spath <> [] /\
  no_kv spath = true /\ exists_ok spath = true /\ ne_ops spath = true /\ tight_chain sB spath = true /\
  wf_vals sL (mkcenv true sdoc (o_vars o_plain) (o_useTZ o_plain)) sB /\
  wf_vals sL (mkcenv false sdoc (o_vars o_plain) (o_useTZ o_plain)) sB /\
  Query sL 40 (mkpath true false spath) sdoc o_plain = Ret (QItems [SubscriptProofs.num 1]) /\
  Query sL 40 (mkpath false false spath) sdoc o_plain =
    Ret (QErr (AErr (EVerbose "jsonpath member accessor can only be applied to an object"))).
Proof.
  split; [unfold sB; lia|]. split; [unfold sB, max_int32; lia|]. split; [exact SubscriptProofs.exL_law|].
  split; [intros l; reflexivity|]. split; [reflexivity|]. split; [discriminate|].
  vm_compute. repeat split; reflexivity.
Qed.

(* the defining equations of StructProofs.mismatch ("some reached step meets a
   missing key, a value of the wrong kind or an out-of-range subscript"), one
   per accessor, for citation in props/C07.v *)
Section MismatchEq.
Variables (C : cenv) (Q : quirks) (rest : list astep) (ig : bool) (cur v : json).
Lemma mismatch_nil : mismatch C Q [] ig cur v = False.
Proof. reflexivity. Qed.
Lemma mismatch_root : mismatch C Q (ARoot :: rest) ig cur v = mismatch C Q rest ig cur (c_root C).
Proof. reflexivity. Qed.
Lemma mismatch_current : mismatch C Q (ACurrent :: rest) ig cur v = mismatch C Q rest ig cur cur.
Proof. reflexivity. Qed.
Lemma mismatch_key key :
  mismatch C Q (AKey key :: rest) ig cur v =
  match v with
  | JObj _ m => match lookup key m with
                | Some y => mismatch C Q rest ig cur y
                | None => ig = false
                end
  | _ => ig = false
  end.
Proof. reflexivity. Qed.
Lemma mismatch_anykey :
  mismatch C Q (AAnyKey :: rest) ig cur v =
  match v with
  | JObj _ m => List.Exists (mismatch C Q rest ig cur) (map snd m)
  | _ => ig = false
  end.
Proof. reflexivity. Qed.
Lemma mismatch_anyarray :
  mismatch C Q (AAnyArray :: rest) ig cur v =
  match v with
  | JArr _ es => List.Exists (mismatch C Q rest ig cur) es
  | _ => ig = false
  end.
Proof. reflexivity. Qed.
Lemma mismatch_any a b :
  mismatch C Q (AAny a b :: rest) ig cur v = List.Exists (mismatch C Q rest true cur) (nodes_at_depth a b v).
Proof. reflexivity. Qed.
Lemma mismatch_index ss :
  mismatch C Q (AIndex ss :: rest) ig cur v =
  match v with
  | JArr _ es =>
      match subs_val (Z.of_nat (List.length es)) ss with
      | Some bounds =>
          (ig = false /\
           List.Exists (fun ft => SubscriptProofs.oob (Z.of_nat (List.length es)) (fst ft) (snd ft) = true) bounds)
          \/ List.Exists (mismatch C Q rest ig cur) (fst (select_trace true (q_skip_null Q) es bounds))
      | None => True
      end
  | _ => True
  end.
Proof. reflexivity. Qed.
End MismatchEq.

(* ---------- C08: the silent and the verbose run of M ----------
   Two option sets that differ (at most) in WithSilent have the same trace ... *)
Lemma sem_of_silent_irrelevant (L : ExecLib) (Q : quirks) (p : path) (doc : json) (o o' : opts) :
  o_vars o' = o_vars o -> o_useTZ o' = o_useTZ o -> sem_of L Q p doc o' = sem_of L Q p doc o.
Proof. unfold sem_of. intros -> ->. reflexivity. Qed.

(* ... so the two runs of the model are the two projections of ONE trace, and the
   clauses of C08 follow from proofs/ProjProofs.v.  [o] is the verbose option set,
   [o'] the same with WithSilent. *)
Section SilentVerbose.
Variables (L : ExecLib) (p : path) (doc : json) (o o' : opts).
Hypothesis Hvars : o_vars o' = o_vars o.
Hypothesis Htz : o_useTZ o' = o_useTZ o.
Hypothesis Hv : o_silent o = false.
Hypothesis Hs : o_silent o' = true.
Hypothesis Hnc : o_cancel_at o = None.
Hypothesis Hnc' : o_cancel_at o' = None.
Hypothesis Hmc : members_canon L.
Hypothesis Hne : p_root p <> [].
Hypothesis Hkv : no_kv (p_root p) = true.
Hypothesis Hex : exists_ok (p_root p) = true.
Hypothesis Hno : ne_ops (p_root p) = true.

Let t := sem_of L quirks_code p doc o.

Lemma sv_query fuel fuel' q q' :
  Query L fuel p doc o = Ret q -> Query L fuel' p doc o' = Ret q' ->
  qres_sim q (p_query false t) /\ qres_sim q' (p_query true t).
Proof.
  intros H H'. split.
  - rewrite <- Hv. exact (query_is_trace L p doc o Hnc Hmc Hne Hkv Hex Hno fuel q H).
  - unfold t. rewrite <- (sem_of_silent_irrelevant L quirks_code p doc o o' Hvars Htz), <- Hs.
    exact (query_is_trace L p doc o' Hnc' Hmc Hne Hkv Hex Hno fuel' q' H').
Qed.

Lemma sv_exists fuel fuel' b b' :
  (p_lax p = true -> unary_tail_free (p_root p) = true) ->
  Exists L fuel p doc o = Ret b -> Exists L fuel' p doc o' = Ret b' ->
  bres_sim b (p_exists (p_lax p) false t) /\ bres_sim b' (p_exists (p_lax p) true t).
Proof.
  intros Hu H H'. split.
  - rewrite <- Hv. exact (exists_is_trace L p doc o Hnc Hmc Hne Hkv Hex Hno fuel b H Hu).
  - unfold t. rewrite <- (sem_of_silent_irrelevant L quirks_code p doc o o' Hvars Htz), <- Hs.
    exact (exists_is_trace L p doc o' Hnc' Hmc Hne Hkv Hex Hno fuel' b' H' Hu).
Qed.

(* a verbose success is returned unchanged by the silent run *)
Theorem C08_query_success_same fuel fuel' l q' :
  Query L fuel p doc o = Ret (QItems l) -> Query L fuel' p doc o' = Ret q' -> q' = QItems l.
Proof.
  intros H H'. destruct (sv_query _ _ _ _ H H') as [S S'].
  destruct (p_query false t) as [l0|] eqn:E; cbn [qres_sim] in S; [subst l0|contradiction].
  rewrite (p_query_success_same t l E) in S'. destruct q'; cbn [qres_sim] in S'; [now subst|contradiction].
Qed.

(* a suppressible failure: the silent run returns the items found before it *)
Theorem C08_query_suppressed fuel fuel' e q' :
  Query L fuel p doc o = Ret (QErr (AErr e)) -> is_verbose e = true ->
  Query L fuel' p doc o' = Ret q' -> q' = QItems (fst t).
Proof.
  intros H He H'. destruct (sv_query _ _ _ _ H H') as [S S'].
  unfold p_query, Proj.vis in S. destruct (snd t) as [e0|] eqn:E; [|contradiction S].
  rewrite andb_false_r in S. cbn [qres_sim apierr_sim] in S.
  rewrite (p_query_suppressed t e0 E) in S' by (now rewrite <- (is_verbose_class _ _ S)).
  destruct q'; cbn [qres_sim] in S'; [now subst|contradiction].
Qed.

(* a non-suppressible failure is returned by the silent run too (same class) *)
Theorem C08_query_hard fuel fuel' e q' :
  Query L fuel p doc o = Ret (QErr (AErr e)) -> is_verbose e = false ->
  Query L fuel' p doc o' = Ret q' -> exists e', q' = QErr (AErr e') /\ eclass e' = eclass e.
Proof.
  intros H He H'. destruct (sv_query _ _ _ _ H H') as [S S'].
  unfold p_query, Proj.vis in S. destruct (snd t) as [e0|] eqn:E; [|contradiction S].
  rewrite andb_false_r in S. cbn [qres_sim apierr_sim] in S.
  assert (He0 : is_verbose e0 = false) by (now rewrite <- (is_verbose_class _ _ S)).
  rewrite (proj1 (p_query_hard t e0 E He0)) in S'.
  destruct q' as [|[e'|]]; cbn [qres_sim apierr_sim] in S'; try contradiction.
  exists e'. split; [reflexivity | congruence].
Qed.

(* Exists: an established answer is unchanged; a suppressible failure becomes NULL;
   a non-suppressible one stays *)
Theorem C08_exists_answer_same fuel fuel' x b' :
  (p_lax p = true -> unary_tail_free (p_root p) = true) ->
  Exists L fuel p doc o = Ret (BVal x) -> Exists L fuel' p doc o' = Ret b' -> b' = BVal x.
Proof.
  intros Hu H H'. destruct (sv_exists _ _ _ _ Hu H H') as [S S']. revert S S'.
  unfold p_exists, Proj.vis. destruct t as [items [e0|]]; cbn [fst snd]; rewrite ?andb_false_r, ?andb_true_r;
    destruct (p_lax p); destruct items; cbn [bres_sim]; intros S S'; try contradiction; subst x;
    destruct b'; cbn [bres_sim] in S'; try contradiction; now subst.
Qed.

Theorem C08_exists_suppressed fuel fuel' e b' :
  (p_lax p = true -> unary_tail_free (p_root p) = true) ->
  Exists L fuel p doc o = Ret (BErr (AErr e)) -> is_verbose e = true ->
  Exists L fuel' p doc o' = Ret b' -> b' = BErr ANull.
Proof.
  intros Hu H He H'. destruct (sv_exists _ _ _ _ Hu H H') as [S S']. revert S S'.
  unfold p_exists, Proj.vis. destruct t as [items [e0|]]; cbn [fst snd]; rewrite ?andb_false_r, ?andb_true_r;
    destruct (p_lax p); destruct items; cbn [bres_sim apierr_sim]; intros S S'; try contradiction;
    rewrite <- (is_verbose_class _ _ S), He in S';
    destruct b' as [|[|]]; cbn [bres_sim apierr_sim] in S'; try contradiction; reflexivity.
Qed.

Theorem C08_exists_hard fuel fuel' e b' :
  (p_lax p = true -> unary_tail_free (p_root p) = true) ->
  Exists L fuel p doc o = Ret (BErr (AErr e)) -> is_verbose e = false ->
  Exists L fuel' p doc o' = Ret b' -> exists e', b' = BErr (AErr e') /\ eclass e' = eclass e.
Proof.
  intros Hu H He H'. destruct (sv_exists _ _ _ _ Hu H H') as [S S']. revert S S'.
  unfold p_exists, Proj.vis. destruct t as [items [e0|]]; cbn [fst snd]; rewrite ?andb_false_r, ?andb_true_r;
    destruct (p_lax p); destruct items; cbn [bres_sim apierr_sim]; intros S S'; try contradiction;
    rewrite <- (is_verbose_class _ _ S), He in S';
    destruct b' as [|[e'|]]; cbn [bres_sim apierr_sim] in S'; try contradiction;
    exists e'; (split; [reflexivity | congruence]).
Qed.
End SilentVerbose.

(* non-vacuity of the section above, and the two remaining clauses on concrete runs
   of the model (library: Invariants.L_triv):
   strict $[*].a on [{"a":1},{}] — verbose: the error; silent: the item found before it;
   strict $[*] ? (@.a == 1).b on [{"a":1},{"c":2}] — the missing key a of the second
   element is suppressed inside the predicate (the element is dropped), the missing
   key b AFTER the filter is reported: the suppression does not leak. *)
Definition c08_path : path := mkpath false false [SConst CRoot; SConst CAnyArray; SKey "a"].
Definition c08_doc : json := JArr 0 [JObj 1 [("a"%string, JNum (NInt 1))]; JObj 2 []].
Definition c08_path2 : path :=
  mkpath false false [SConst CRoot; SConst CAnyArray;
                      SUn UFilter [SBin BEq [SConst CCurrent; SKey "a"] [SInteger 1]]; SKey "b"].
Definition c08_doc2 : json := JArr 0 [JObj 1 [("a"%string, JNum (NInt 1))]; JObj 2 [("c"%string, JNum (NInt 2))]].
Example C08_model_witness :
  members_canon Invariants.L_triv /\
  p_root c08_path <> [] /\ no_kv (p_root c08_path) = true /\ exists_ok (p_root c08_path) = true /\
  ne_ops (p_root c08_path) = true /\ unary_tail_free (p_root c08_path) = true /\
  Query Invariants.L_triv 20 c08_path c08_doc (Invariants.o_wit None false)
    = Ret (QErr (AErr (EVerbose "JSON object does not contain key"))) /\
  Query Invariants.L_triv 20 c08_path c08_doc (Invariants.o_wit None true) = Ret (QItems [JNum (NInt 1)]) /\
  fst (sem_of Invariants.L_triv quirks_code c08_path c08_doc (Invariants.o_wit None false)) = [JNum (NInt 1)] /\
  Exists Invariants.L_triv 20 c08_path c08_doc (Invariants.o_wit None false)
    = Ret (BErr (AErr (EVerbose "JSON object does not contain key"))) /\
  Exists Invariants.L_triv 20 c08_path c08_doc (Invariants.o_wit None true) = Ret (BErr ANull) /\
  Query Invariants.L_triv 30 c08_path2 c08_doc2 (Invariants.o_wit None false)
    = Ret (QErr (AErr (EVerbose "JSON object does not contain key"))) /\
  Query Invariants.L_triv 30 c08_path2 c08_doc2 (Invariants.o_wit None true) = Ret (QItems []).
Proof.
  split; [intros l; reflexivity|]. split; [discriminate|].
  vm_compute. repeat split; reflexivity.
Qed.

(* ---------- C20: a context that is done before the first step ----------
   every entry point polls at least once (Invariants.query_polls), so the
   hypothesis "the cancellation point was reached" of Invariants.*_cancel holds
   when the context is done from the start (o_cancel_at o = Some 0). *)
Lemma polls_reach_zero L fuel p doc o vals r s' :
  query L fuel p doc o vals = Ret (r, s') ->
  exists n, polls_of L fuel p doc o vals = Ret n /\ (0 < n)%nat.
Proof.
  intros Hq. exists (polls s'). split; [unfold polls_of; rewrite Hq; reflexivity|].
  apply Invariants.query_polls in Hq. lia.
Qed.

Theorem query_cancelled_from_start L fuel p doc o q :
  o_cancel_at o = Some 0%nat -> Query L fuel p doc o = Ret q -> q = QErr (AErr ECancel).
Proof.
  intros Hk H. apply (Invariants.query_cancel L fuel p doc o 0%nat q Hk H).
  unfold Query in H. destruct (query L fuel p doc o (Some [])) as [[r s']| |] eqn:Hq; try discriminate H.
  exact (polls_reach_zero _ _ _ _ _ _ _ _ Hq).
Qed.

Theorem first_cancelled_from_start L fuel p doc o q :
  o_cancel_at o = Some 0%nat -> First L fuel p doc o = Ret q -> q = FErr (AErr ECancel).
Proof.
  intros Hk H. apply (Invariants.first_cancel L fuel p doc o 0%nat q Hk H).
  unfold First in H. destruct (query L fuel p doc o (Some [])) as [[r s']| |] eqn:Hq; try discriminate H.
  exact (polls_reach_zero _ _ _ _ _ _ _ _ Hq).
Qed.

Theorem exists_cancelled_from_start L fuel p doc o q :
  o_cancel_at o = Some 0%nat -> Exists L fuel p doc o = Ret q -> q = BErr (AErr ECancel).
Proof.
  intros Hk H. apply (Invariants.exists_cancel L fuel p doc o 0%nat q Hk H).
  unfold Exists in H. destruct (query L fuel p doc o None) as [[r s']| |] eqn:Hq; try discriminate H.
  exact (polls_reach_zero _ _ _ _ _ _ _ _ Hq).
Qed.

Theorem match_cancelled_from_start L fuel p doc o q :
  o_cancel_at o = Some 0%nat -> Match L fuel p doc o = Ret q -> q = BErr (AErr ECancel).
Proof.
  intros Hk H. apply (Invariants.match_cancel L fuel p doc o 0%nat q Hk H).
  unfold Match in H. destruct (query L fuel p doc o (Some [])) as [[r s']| |] eqn:Hq; try discriminate H.
  exact (polls_reach_zero _ _ _ _ _ _ _ _ Hq).
Qed.

Theorem eom_cancelled_from_start L fuel p doc o q :
  o_cancel_at o = Some 0%nat -> ExistsOrMatch L fuel p doc o = Ret q -> q = BErr (AErr ECancel).
Proof.
  unfold ExistsOrMatch. destruct (p_pred p); [apply match_cancelled_from_start | apply exists_cancelled_from_start].
Qed.

(* ---------- C11: a top-level predicate check on the model ----------
   For a path whose root is one boolean step s (a connective, a comparison,
   exists, like_regex ...), Query of M returns the one item true / false / null
   that is the value of sem_pred, or the non-suppressible error; Match the
   corresponding outcome. *)
Section PredCheck.
Variables (L : ExecLib) (p : path) (doc : json) (o : opts) (s : step).
Hypothesis Hroot : p_root p = [s].
Hypothesis Hs : KleeneProofs.is_pred_step s = true.
Hypothesis Hnc : o_cancel_at o = None.
Hypothesis Hmc : members_canon L.
Hypothesis Hkv : no_kv [s] = true.
Hypothesis Hex : exists_ok [s] = true.
Hypothesis Hno : ne_ops [s] = true.

Let C := mkcenv (p_lax p) doc (o_vars o) (o_useTZ o).
Let r := sem_pred L C quirks_code s doc (-1) (p_lax p) doc.

Lemma sem_of_pred_check :
  sem_of L quirks_code p doc o =
  match r with (_, Some e) => tfail e | (pv, None) => tone (bool_item pv) end.
Proof.
  unfold sem_of. rewrite Hroot. fold C.
  change (sem_path L C quirks_code [s]) with
    (sem_step L C quirks_code s (fun l' ig' x => sem_chain L C quirks_code [] doc l' ig' (laxm C) x)
       doc (-1) (p_lax p) (p_lax p) doc).
  rewrite (KleeneProofs.C11_pred_as_item L C quirks_code s _ doc (-1) (p_lax p) (p_lax p) doc Hs).
  fold r. destruct r as [pv [e|]]; reflexivity.
Qed.

Lemma Hne_pred : p_root p <> [].
Proof. rewrite Hroot. discriminate. Qed.

Theorem C11_query_model fuel q :
  Query L fuel p doc o = Ret q ->
  match sem_pred L (mkcenv (p_lax p) doc (o_vars o) (o_useTZ o)) quirks_code s doc (-1) (p_lax p) doc with
  | (pv, None) => q = QItems [bool_item pv]
  | (_, Some e) => is_verbose e = false /\ exists e', q = QErr (AErr e') /\ eclass e' = eclass e
  end.
Proof.
  intros H. pose proof Hkv as Hkv'. pose proof Hex as Hex'. pose proof Hno as Hno'.
  rewrite <- Hroot in Hkv', Hex', Hno'.
  pose proof (query_is_trace L p doc o Hnc Hmc Hne_pred Hkv' Hex' Hno' fuel q H) as S.
  rewrite sem_of_pred_check in S. pose proof (sem_pred_hard L C quirks_code s doc (-1) (p_lax p) doc) as Hh.
  fold r in Hh. fold C. fold r. destruct r as [pv [e|]].
  - assert (He : is_verbose e = false) by (apply Hh; reflexivity). split; [exact He|].
    unfold p_query, Proj.vis, tfail in S. cbn [fst snd] in S. rewrite He in S. cbn [andb] in S.
    destruct q as [|[e'|]]; cbn [qres_sim apierr_sim] in S; try contradiction. eauto.
  - unfold p_query, tone in S. cbn [fst snd] in S. destruct q; cbn [qres_sim] in S; [now subst | contradiction].
Qed.

Theorem C11_match_model fuel b :
  Match L fuel p doc o = Ret b ->
  match sem_pred L (mkcenv (p_lax p) doc (o_vars o) (o_useTZ o)) quirks_code s doc (-1) (p_lax p) doc with
  | (PTrue, None) => b = BVal true
  | (PFalse, None) => b = BVal false
  | (PUnknown, None) => b = BErr ANull
  | (_, Some e) => is_verbose e = false /\ exists e', b = BErr (AErr e') /\ eclass e' = eclass e
  end.
Proof.
  intros H. pose proof Hkv as Hkv'. pose proof Hex as Hex'. pose proof Hno as Hno'.
  rewrite <- Hroot in Hkv', Hex', Hno'.
  pose proof (match_is_trace L p doc o Hnc Hmc Hne_pred Hkv' Hex' Hno' fuel b H) as S.
  rewrite sem_of_pred_check in S. pose proof (sem_pred_hard L C quirks_code s doc (-1) (p_lax p) doc) as Hh.
  pose proof (KleeneProofs.sem_pred_wf L C quirks_code s doc (-1) (p_lax p) doc) as Hw.
  fold r in Hh, Hw. fold C. fold r. destruct r as [pv [e|]].
  - assert (He : is_verbose e = false) by (apply Hh; reflexivity).
    specialize (Hw e eq_refl). cbn [fst] in Hw. subst pv. split; [exact He|].
    unfold p_match, p_query, Proj.vis, tfail in S. cbn [fst snd] in S. rewrite He in S. cbn [andb] in S.
    destruct b as [|[e'|]]; cbn [bres_sim apierr_sim] in S; try contradiction. eauto.
  - unfold p_match, p_query, tone in S. cbn [fst snd] in S.
    destruct pv; cbn [bool_item] in S; destruct b as [|[|]]; cbn [bres_sim apierr_sim] in S;
      try contradiction; try reflexivity; now subst.
Qed.
End PredCheck.

(* non-vacuity, and known finding KF-C11-isunknown-hard-error on the model:
   (true == 1) is unknown  -> [true], Match true;
   (exists($x)) is unknown with $x unbound -> [true] (the hard error is swallowed);
   exists($x) alone -> the hard error from Query and Match, silent or not *)
Definition c11_p1 : path := mkpath true true [SUn UIsUnknown [SBin BEq [SConst CTrue] [SInteger 1]]].
Definition c11_p2 : path := mkpath true true [SUn UIsUnknown [KleeneProofs.c11_hard]].
Definition c11_p3 : path := mkpath true true [KleeneProofs.c11_hard].
Example C11_model_witness :
  members_canon RefineWitness.L0 /\
  KleeneProofs.is_pred_step (SUn UIsUnknown [SBin BEq [SConst CTrue] [SInteger 1]]) = true /\
  no_kv (p_root c11_p1) = true /\ exists_ok (p_root c11_p1) = true /\ ne_ops (p_root c11_p1) = true /\
  Query RefineWitness.L0 20 c11_p1 JNull (RefineWitness.o0 false) = Ret (QItems [JBool true]) /\
  Match RefineWitness.L0 20 c11_p1 JNull (RefineWitness.o0 false) = Ret (BVal true) /\
  Query RefineWitness.L0 20 c11_p2 JNull (RefineWitness.o0 false) = Ret (QItems [JBool true]) /\
  Match RefineWitness.L0 20 c11_p2 JNull (RefineWitness.o0 false) = Ret (BVal true) /\
  Query RefineWitness.L0 20 c11_p3 JNull (RefineWitness.o0 true)
    = Ret (QErr (AErr (EExec "could not find jsonpath variable"))) /\
  Match RefineWitness.L0 20 c11_p3 JNull (RefineWitness.o0 true)
    = Ret (BErr (AErr (EExec "could not find jsonpath variable"))).
Proof.
  split; [intros l; reflexivity|]. vm_compute. repeat split; reflexivity.
Qed.

(* the tables of proofs/KleeneProofs.v written out row by row, for citation in props/C11.v *)
Lemma kout_of_rows :
  KleeneProofs.kout_of (PTrue, None) = KleeneProofs.KT /\
  KleeneProofs.kout_of (PFalse, None) = KleeneProofs.KF /\
  KleeneProofs.kout_of (PUnknown, None) = KleeneProofs.KU /\
  (forall pv e, KleeneProofs.kout_of (pv, Some e) = KleeneProofs.KE e).
Proof. repeat split. intros [] e; reflexivity. Qed.
Lemma pres_of_rows :
  KleeneProofs.pres_of KleeneProofs.KT = (PTrue, None) /\
  KleeneProofs.pres_of KleeneProofs.KF = (PFalse, None) /\
  KleeneProofs.pres_of KleeneProofs.KU = (PUnknown, None) /\
  (forall e, KleeneProofs.pres_of (KleeneProofs.KE e) = (PUnknown, Some e)).
Proof. repeat split. Qed.
Import KleeneProofs.
Lemma k_and_nine_rows :
  k_and KT KT = KT /\ k_and KT KF = KF /\ k_and KT KU = KU /\
  k_and KF KT = KF /\ k_and KF KF = KF /\ k_and KF KU = KF /\
  k_and KU KT = KU /\ k_and KU KF = KF /\ k_and KU KU = KU.
Proof. repeat split. Qed.
Lemma k_or_nine_rows :
  k_or KT KT = KT /\ k_or KT KF = KT /\ k_or KT KU = KT /\
  k_or KF KT = KT /\ k_or KF KF = KF /\ k_or KF KU = KU /\
  k_or KU KT = KT /\ k_or KU KF = KU /\ k_or KU KU = KU.
Proof. repeat split. Qed.
Lemma k_not_rows : k_not KT = KF /\ k_not KF = KT /\ k_not KU = KU /\ (forall e, k_not (KE e) = KE e).
Proof. repeat split. Qed.
Lemma k_isunknown_error_rows e : k_isunknown false (KE e) = KE e /\ k_isunknown true (KE e) = KT.
Proof. split; reflexivity. Qed.
Lemma k_exists_eq lax t :
  k_exists lax t =
  if lax then
    match fst t, snd t with
    | _ :: _, _ => KT
    | [], Some e => if is_verbose e then KU else KE e
    | [], None => KF
    end
  else
    match snd t, fst t with
    | Some e, _ => if is_verbose e then KU else KE e
    | None, [] => KF
    | None, _ :: _ => KT
    end.
Proof. reflexivity. Qed.

(* ---------- gen/RaiseSites.v: the inventory regenerated from /repo ----------
   equals the inventory the model was validated against; in particular the
   class of the cancellation raise site is ErrExecution (not ErrVerbose). *)
Example raise_sites_as_expected : raise_sites = expected_raise_sites.
Proof. vm_compute. reflexivity. Qed.

Definition site_eqb (a b : string * string * string) : bool :=
  String.eqb (fst (fst a)) (fst (fst b)) && String.eqb (snd (fst a)) (snd (fst b)) && String.eqb (snd a) (snd b).

Example cancellation_site_is_ErrExecution :
  existsb (site_eqb ("path/exec/execution.go", "executeItemOptUnwrapTarget", "ErrExecution")%string) raise_sites = true.
Proof. vm_compute. reflexivity. Qed.

Example cancellation_site_In :
  In ("path/exec/execution.go", "executeItemOptUnwrapTarget", "ErrExecution")%string raise_sites.
Proof.
  assert (H : forall x l, existsb (site_eqb x) l = true -> In x l).
  { intros [[a b] c] l Hx. apply existsb_exists in Hx. destruct Hx as [[[a' b'] c'] [Hin He]].
    unfold site_eqb in He. cbn [fst snd] in He.
    apply andb_true_iff in He. destruct He as [He H3]. apply andb_true_iff in He. destruct He as [H1 H2].
    apply String.eqb_eq in H1, H2, H3. now subst. }
  apply H. exact cancellation_site_is_ErrExecution.
Qed.

Print Assumptions C07_lax_model.
Print Assumptions C07_strict_model.
Print Assumptions C07_model_witness.
Print Assumptions C08_query_success_same.
Print Assumptions C08_query_suppressed.
Print Assumptions C08_query_hard.
Print Assumptions C08_exists_answer_same.
Print Assumptions C08_exists_suppressed.
Print Assumptions C08_exists_hard.
Print Assumptions C08_model_witness.
Print Assumptions query_cancelled_from_start.
Print Assumptions eom_cancelled_from_start.
Print Assumptions C11_query_model.
Print Assumptions C11_match_model.
Print Assumptions C11_model_witness.
Print Assumptions raise_sites_as_expected.
Print Assumptions cancellation_site_In.
