(* LexFuel.v — fuel irrelevance and composition for model/Lexer.v.

   1. Monotonicity: a fuelled loop that does not end with EOutOfFuel gives the
      same result with any larger fuel (string_loop, ident_loop, lex_tok,
      lex_all); with LexProofs.*_good: any two sufficient fuels agree.
   2. Composition: one Lex call followed by lexing what it left is lexing the
      whole input (lex_runes_cons, lex_runes_step, lex_runes_done).
   3. White space and comments in front of a token do not change the token
      list (ws_insensitive, comment_insensitive, filler_insensitive). *)
From SJ Require Import lib.Base lib.Utf8 lib.GoLib model.Lexer proofs.LexProofs.
Local Open Scope list_scope.
Notation length := List.length (only parsing).

Section Fuel.
Variable L : GoLib.

(* ------------------------------------------------------------------ *)
(* 1. monotonicity *)

Lemma string_loop_mono f : forall f' ch rest buf,
  string_loop f ch rest buf <> LErr EOutOfFuel -> (f <= f')%nat ->
  string_loop f' ch rest buf = string_loop f ch rest buf.
Proof.
  induction f as [|f IH]; intros f' ch rest buf H Hle; [cbn in H; congruence|].
  destruct f' as [|f']; [lia|]. cbn [string_loop] in *.
  destruct (ch =? 34); [reflexivity|].
  destruct ((ch =? 10) || (ch <? 0)); [reflexivity|].
  destruct (ch =? 92).
  - destruct (scan_escape rest buf) as [[[c r] b]|e]; cbn [lbind] in *; [|reflexivity].
    apply IH; [exact H|lia].
  - destruct (next rest) as [[c r]|e]; cbn [lbind] in *; [|reflexivity].
    apply IH; [exact H|lia].
Qed.

Lemma ident_loop_mono f : forall f' ch rest buf,
  ident_loop L f ch rest buf <> LErr EOutOfFuel -> (f <= f')%nat ->
  ident_loop L f' ch rest buf = ident_loop L f ch rest buf.
Proof.
  induction f as [|f IH]; intros f' ch rest buf H Hle; [cbn in H; congruence|].
  destruct f' as [|f']; [lia|]. cbn [ident_loop] in *.
  destruct (is_ident_rune L ch false); [|reflexivity].
  destruct (ch =? 92).
  - destruct (scan_escape rest buf) as [[[c r] b]|e]; cbn [lbind] in *; [|reflexivity].
    apply IH; [exact H|lia].
  - destruct (next rest) as [[c r]|e]; cbn [lbind] in *; [|reflexivity].
    apply IH; [exact H|lia].
Qed.

(* the loops' results with any two sufficient fuels *)
Lemma good_not_fuel {A} (proj : A -> Z * list Z) n (x : lres A) : good proj n x -> x <> LErr EOutOfFuel.
Proof. destruct x; cbn; [discriminate|congruence]. Qed.

Lemma string_loop_fuel f f' ch rest buf :
  (msr ch rest < f)%nat -> (msr ch rest < f')%nat ->
  string_loop f ch rest buf = string_loop f' ch rest buf.
Proof.
  intros H H'. destruct (Nat.le_ge_cases f f') as [Hle|Hle].
  - symmetry. apply string_loop_mono; [|exact Hle].
    eapply good_not_fuel. apply string_loop_good. exact H.
  - apply string_loop_mono; [|exact Hle].
    eapply good_not_fuel. apply string_loop_good. exact H'.
Qed.

Lemma ident_loop_fuel f f' ch rest buf :
  (msr ch rest < f)%nat -> (msr ch rest < f')%nat ->
  ident_loop L f ch rest buf = ident_loop L f' ch rest buf.
Proof.
  intros H H'. destruct (Nat.le_ge_cases f f') as [Hle|Hle].
  - symmetry. apply ident_loop_mono; [|exact Hle].
    eapply good_not_fuel. apply ident_loop_good. exact H.
  - apply ident_loop_mono; [|exact Hle].
    eapply good_not_fuel. apply ident_loop_good. exact H'.
Qed.

(* Lex: the part after white space has been skipped; the fuel is only used
   by the comment "goto redo" *)
Definition lex_body (f : nat) (ch : Z) (rest : list Z) : lres (option token * Z * list Z) :=
  if is_ident_rune L ch true then
    let* (t, c, r) := scan_ident L ch rest in LOk (Some t, c, r)
  else if is_decimal ch then
    let* (k, txt, c, r) := scan_number L ch rest false in
    LOk (Some (mktok k (str_of_bytes txt)), c, r)
  else if ch <? 0 then LOk (None, ch, rest)
  else if ch =? 34 then
    let* (c, r, b) := scan_string rest in LOk (Some (mktok TString (string_of_runes b)), c, r)
  else if ch =? 36 then
    let* (t, c, r) := scan_variable L rest in LOk (Some t, c, r)
  else if ch =? 47 then
    let* (c, r) := next rest in
    if c =? 42 then let* (c', r') := scan_comment r in lex_tok L f c' r'
    else LOk (Some (mktok (TChar 47) "/"), c, r)
  else if ch =? 46 then
    let* (c, r) := next rest in
    if is_decimal c then
      let* (k, txt, c', r') := scan_number L c r true in
      LOk (Some (mktok k (str_of_bytes txt)), c', r')
    else LOk (Some (mktok (TChar 46) "."), c, r)
  else if 57344 <=? ch then LErr EInvalidChar
  else
    let* (t, c, r) := scan_operator ch rest in LOk (Some t, c, r).

Lemma lex_tok_S f ch rest :
  lex_tok L (S f) ch rest = (let* (c, r) := skip_ws ch rest in lex_body f c r).
Proof. reflexivity. Qed.

Lemma lex_body_mono f f' ch rest :
  (forall c r, lex_tok L f c r <> LErr EOutOfFuel -> lex_tok L f' c r = lex_tok L f c r) ->
  lex_body f ch rest <> LErr EOutOfFuel -> lex_body f' ch rest = lex_body f ch rest.
Proof.
  intros IH H. unfold lex_body in *.
  destruct (is_ident_rune L ch true); [reflexivity|].
  destruct (is_decimal ch); [reflexivity|].
  destruct (ch <? 0); [reflexivity|].
  destruct (ch =? 34); [reflexivity|].
  destruct (ch =? 36); [reflexivity|].
  destruct (ch =? 47); [|reflexivity].
  destruct (next rest) as [[c r]|e]; cbn [lbind] in *; [|reflexivity].
  destruct (c =? 42); [|reflexivity].
  destruct (scan_comment r) as [[c' r']|e]; cbn [lbind] in *; [|reflexivity].
  apply IH. exact H.
Qed.

Lemma lex_tok_mono f : forall f' ch rest,
  lex_tok L f ch rest <> LErr EOutOfFuel -> (f <= f')%nat ->
  lex_tok L f' ch rest = lex_tok L f ch rest.
Proof.
  induction f as [|f IH]; intros f' ch rest H Hle; [cbn in H; congruence|].
  destruct f' as [|f']; [lia|]. rewrite !lex_tok_S in *.
  destruct (skip_ws ch rest) as [[c r]|e]; cbn [lbind] in *; [|reflexivity].
  apply lex_body_mono; [|exact H].
  intros c0 r0 H0. apply IH; [exact H0|lia].
Qed.

Lemma tok_good_not_fuel n x : tok_good n x -> x <> LErr EOutOfFuel.
Proof. destruct x as [[[[t|] c] r]|e]; cbn; try discriminate. congruence. Qed.

(* any two sufficient fuels give the same Lex result *)
Lemma lex_tok_fuel f f' ch rest :
  (msr ch rest <= S f)%nat -> (msr ch rest <= S f')%nat ->
  lex_tok L (S f) ch rest = lex_tok L (S f') ch rest.
Proof.
  intros H H'. destruct (Nat.le_ge_cases f f') as [Hle|Hle].
  - symmetry. apply lex_tok_mono; [|lia].
    eapply tok_good_not_fuel. apply lex_tok_good. exact H.
  - apply lex_tok_mono; [|lia].
    eapply tok_good_not_fuel. apply lex_tok_good. exact H'.
Qed.

Lemma msr_le ch rest : (msr ch rest <= S (length rest))%nat.
Proof. unfold msr. destruct (ch <? 0); cbn; lia. Qed.

Lemma lex_all_S f ch rest :
  lex_all L (S f) ch rest =
    match lex_tok L (S (length rest)) ch rest with
    | LErr e => [err_tok e]
    | LOk (None, _, _) => []
    | LOk (Some t, ch', rest') => t :: lex_all L f ch' rest'
    end.
Proof. reflexivity. Qed.

(* the token loop: "no out-of-fuel pseudo-token" is the non-exhaustion notion *)
Definition no_fuel_err (ts : list token) : Prop := ~ In (err_tok EOutOfFuel) ts.

Lemma lex_all_mono f : forall f' ch rest,
  no_fuel_err (lex_all L f ch rest) -> (f <= f')%nat ->
  lex_all L f' ch rest = lex_all L f ch rest.
Proof.
  induction f as [|f IH]; intros f' ch rest H Hle.
  - exfalso. apply H. left. reflexivity.
  - destruct f' as [|f']; [lia|]. cbn [lex_all] in *.
    destruct (lex_tok L (S (length rest)) ch rest) as [[[[t|] c] r]|e]; try reflexivity.
    f_equal. apply IH; [|lia]. intros Hin. apply H. right. exact Hin.
Qed.

Lemma has_fuel_err_no ts : ~ has_fuel_err ts -> no_fuel_err ts.
Proof. intros H Hin. apply H. exists ""%string. exact Hin. Qed.

Lemma lex_all_fuel f f' ch rest :
  (msr ch rest < f)%nat -> (msr ch rest < f')%nat ->
  lex_all L f ch rest = lex_all L f' ch rest.
Proof.
  intros H H'. destruct (Nat.le_ge_cases f f') as [Hle|Hle].
  - symmetry. apply lex_all_mono; [|exact Hle].
    apply has_fuel_err_no, lex_all_total. exact H.
  - apply lex_all_mono; [|exact Hle].
    apply has_fuel_err_no, lex_all_total. exact H'.
Qed.

(* ------------------------------------------------------------------ *)
(* 2. composition *)

(* the unread input of a lexer state *)
Definition stream (c : Z) (r : list Z) : list Z := if c <? 0 then [] else c :: r.

(* lexer states as next() produces them: end of input, or a checked rune *)
Definition canon_state (c : Z) (r : list Z) : Prop := (c = -1 /\ r = []) \/ 0 < c.

Lemma canon_view rest : readable_head rest = true -> canon_state (fst (view rest)) (snd (view rest)).
Proof.
  destruct rest as [|c r]; cbn; intros H; [left; split; reflexivity|right; lia].
Qed.

Lemma stream_view rest : readable_head rest = true -> stream (fst (view rest)) (snd (view rest)) = rest.
Proof.
  destruct rest as [|c r]; cbn [readable_head view fst snd]; intros H; unfold stream; [reflexivity|].
  replace (c <? 0) with false by lia. reflexivity.
Qed.

(* lexing from a canonical state is lexing its stream *)
Lemma lex_all_stream f c r :
  canon_state c r -> (msr c r < f)%nat -> lex_all L f c r = lex_runes L (stream c r).
Proof.
  intros [[Hc Hr]|Hc] Hf.
  - subst. unfold stream, lex_runes. cbn [Z.ltb Z.compare next].
    apply lex_all_fuel; [exact Hf|cbn; lia].
  - unfold stream, lex_runes. replace (c <? 0) with false by lia.
    cbn [next]. unfold check. replace (c =? 0) with false by lia. replace (c <? 0) with false by lia.
    cbn [lbind]. apply lex_all_fuel; [exact Hf|]. rewrite msr_cons by exact Hc. lia.
Qed.

Theorem lex_runes_cons l t c r :
  lex_one L l = LOk (Some t, c, r) -> canon_state c r ->
  lex_runes L l = t :: lex_runes L (stream c r).
Proof.
  unfold lex_one, lex_runes. intros H Hc.
  destruct (next l) as [[ch rest0]|e]; cbn [lbind] in H; [|discriminate].
  rewrite lex_all_S. rewrite H. f_equal.
  apply lex_all_stream; [exact Hc|].
  pose proof (lex_tok_good L (length rest0) ch rest0 (msr_le ch rest0)) as G.
  rewrite H in G. cbn [tok_good] in G. pose proof (msr_le ch rest0). lia.
Qed.

(* the form used with the token-independence theorems of LexProofs /
   QuoteProofs: the call leaves exactly [rest] *)
Theorem lex_runes_step l t rest :
  lex_one L l = LOk (Some t, fst (view rest), snd (view rest)) -> readable_head rest = true ->
  lex_runes L l = t :: lex_runes L rest.
Proof.
  intros H Hr. rewrite (lex_runes_cons l t _ _ H (canon_view rest Hr)).
  rewrite stream_view by exact Hr. reflexivity.
Qed.

Theorem lex_runes_done l c r : lex_one L l = LOk (None, c, r) -> lex_runes L l = [].
Proof.
  unfold lex_one, lex_runes. intros H.
  destruct (next l) as [[ch rest0]|e]; cbn [lbind] in H; [|discriminate].
  rewrite lex_all_S. rewrite H. reflexivity.
Qed.

Lemma lex_runes_nil : lex_runes L [] = [].
Proof. reflexivity. Qed.

(* ------------------------------------------------------------------ *)
(* 3. white space and comments *)

Lemma is_ws_pos c : is_ws c = true -> 0 < c.
Proof. unfold is_ws. lia. Qed.

(* Lex on a white-space look-ahead moves to the next rune *)
Lemma lex_tok_ws f w c r :
  is_ws w = true -> 0 < c -> lex_tok L (S f) w (c :: r) = lex_tok L (S f) c r.
Proof.
  intros Hw Hc. rewrite !lex_tok_S. cbn [skip_ws]. rewrite Hw.
  unfold check. replace (c =? 0) with false by lia. replace (c <? 0) with false by lia.
  cbn [lbind]. reflexivity.
Qed.

Lemma lex_tok_eof f : lex_tok L (S f) (-1) [] = LOk (None, -1, []).
Proof.
  rewrite lex_tok_S. cbn [skip_ws]. change (is_ws (-1)) with false. cbn [lbind].
  unfold lex_body, is_ident_rune. cbn [Z.eqb Z.leb Z.compare orb andb]. reflexivity.
Qed.

Theorem ws_one w l : is_ws w = true -> lex_runes L (w :: l) = lex_runes L l.
Proof.
  intros Hw. pose proof (is_ws_pos w Hw) as Hp.
  unfold lex_runes at 1. cbn [next]. unfold check at 1.
  replace (w =? 0) with false by lia. replace (w <? 0) with false by lia. cbn [lbind].
  destruct l as [|c r].
  - rewrite lex_all_S. cbn [length]. rewrite lex_tok_S. cbn [skip_ws]. rewrite Hw. cbn [lbind].
    unfold lex_body, is_ident_rune. cbn [Z.eqb Z.leb Z.compare orb andb Z.ltb]. reflexivity.
  - unfold lex_runes. cbn [next].
    destruct (check_cases c) as [[E P]|[e [E N]]]; rewrite E; cbn [lbind].
    + rewrite !lex_all_S. cbn [length].
      rewrite lex_tok_ws by assumption.
      rewrite (lex_tok_fuel (S (length r)) (length r) c r)
        by (rewrite msr_cons by exact P; lia).
      pose proof (lex_tok_good L (length r) c r (msr_le c r)) as G.
      destruct (lex_tok L (S (length r)) c r) as [[[[t|] c'] r']|e']; try reflexivity.
      f_equal. cbn [tok_good] in G. pose proof (msr_cons c r P) as Hm.
      apply lex_all_fuel; lia.
    + rewrite lex_all_S. rewrite lex_tok_S. cbn [skip_ws]. rewrite Hw, E. reflexivity.
Qed.

Theorem ws_insensitive ws l : forallb is_ws ws = true -> lex_runes L (ws ++ l) = lex_runes L l.
Proof.
  induction ws as [|w ws IH]; intros H; [reflexivity|].
  cbn [forallb] in H. apply andb_prop in H as [Hw Hws].
  cbn [app]. rewrite ws_one by exact Hw. apply IH. exact Hws.
Qed.

(* a comment body: readable runes, no "*/" inside *)
Fixpoint no_close (body : list Z) : bool :=
  match body with
  | a :: (b :: _) as tl => negb ((a =? 42) && (b =? 47)) && no_close tl
  | _ => true
  end.

Definition comment_body (body : list Z) : bool := forallb (Z.ltb 0) body && no_close body.

Lemma check_ok c : 0 < c -> check c = LOk tt.
Proof. intros H. unfold check. replace (c =? 0) with false by lia. replace (c <? 0) with false by lia. reflexivity. Qed.

Lemma comment_loop_body body : forall ch l,
  0 < ch -> forallb (Z.ltb 0) body = true -> no_close (ch :: body) = true ->
  comment_loop ch (body ++ 42 :: 47 :: l) = next l.
Proof.
  induction body as [|b body IH]; intros ch l Hch Hp Hn.
  - cbn [app comment_loop]. replace (ch <? 0) with false by lia.
    rewrite check_ok by lia. cbn [lbind]. change (42 =? 47) with false. rewrite andb_false_r.
    cbn [comment_loop]. change (42 <? 0) with false. cbn iota. rewrite check_ok by lia. cbn [lbind].
    reflexivity.
  - cbn [forallb] in Hp. apply andb_prop in Hp as [Hb Hp].
    cbn [no_close] in Hn. apply andb_prop in Hn as [Hn1 Hn2].
    cbn [app comment_loop]. replace (ch <? 0) with false by lia.
    rewrite check_ok by lia. cbn [lbind].
    apply negb_true_iff in Hn1. rewrite Hn1.
    apply IH; [lia|exact Hp|exact Hn2].
Qed.

Lemma scan_comment_body body l :
  comment_body body = true -> scan_comment (body ++ 42 :: 47 :: l) = next l.
Proof.
  unfold comment_body. intros H. apply andb_prop in H as [Hp Hn].
  unfold scan_comment. destruct body as [|b body].
  - cbn [app next]. rewrite check_ok by lia. cbn [lbind comment_loop].
    change (42 <? 0) with false. cbn iota. rewrite check_ok by lia. reflexivity.
  - cbn [forallb] in Hp. apply andb_prop in Hp as [Hb Hp].
    cbn [app next]. rewrite check_ok by lia. cbn [lbind].
    apply comment_loop_body; [lia|exact Hp|exact Hn].
Qed.

End Fuel.

Section Comments.
Variable L : GoLib.
Hypothesis HL : Laws L.

(* Lex on "/" "*" body "*" "/" continues with what follows the comment *)
Lemma lex_tok_comment f body l :
  comment_body body = true ->
  lex_tok L (S f) 47 (42 :: body ++ 42 :: 47 :: l) = (let* (c, r) := next l in lex_tok L f c r).
Proof.
  intros H. rewrite lex_tok_S. rewrite skip_ws_not by reflexivity.
  cbn [lbind]. unfold lex_body.
  rewrite (ident_start_false L HL) by (cbn; first [lia|reflexivity]).
  change (is_decimal 47) with false. change (47 <? 0) with false. change (47 =? 34) with false.
  change (47 =? 36) with false. change (47 =? 47) with true. cbn iota.
  cbn [next]. rewrite check_ok by lia. cbn [lbind]. change (42 =? 42) with true. cbn iota.
  rewrite scan_comment_body by exact H. reflexivity.
Qed.

Theorem comment_insensitive body l :
  comment_body body = true ->
  lex_runes L ([47; 42] ++ body ++ [42; 47] ++ l) = lex_runes L l.
Proof.
  intros H. cbn [app]. unfold lex_runes at 1. cbn [next]. rewrite check_ok by lia. cbn [lbind].
  rewrite lex_all_S. rewrite lex_tok_comment by exact H.
  unfold lex_runes.
  destruct (next l) as [[c r]|e] eqn:En; cbn [lbind]; [|reflexivity].
  set (big := 42 :: body ++ 42 :: 47 :: l).
  assert (Hlen: (length r < length big)%nat).
  { unfold big. cbn [length]. rewrite app_length. cbn [length].
    destruct l as [|c0 l0]; cbn [next] in En.
    - inversion En; subst. cbn. lia.
    - destruct (check c0); cbn [lbind] in En; [|discriminate]. inversion En; subst. cbn [length]. lia. }
  remember (length big) as n eqn:Hn. clear Hn big.
  destruct n as [|n]; [lia|].
  rewrite (lex_tok_fuel L n (length r) c r) by (pose proof (msr_le c r); lia).
  pose proof (lex_tok_good L (length r) c r (msr_le c r)) as G.
  rewrite lex_all_S.
  destruct (lex_tok L (S (length r)) c r) as [[[[t|] c'] r']|e']; try reflexivity.
  f_equal. cbn [tok_good] in G. pose proof (msr_le c r).
  apply lex_all_fuel; lia.
Qed.

(* fillers: any concatenation of white-space runes and well-formed comments *)
Inductive filler : list Z -> Prop :=
| filler_nil : filler []
| filler_ws w g : is_ws w = true -> filler g -> filler (w :: g)
| filler_comment body g :
    comment_body body = true -> filler g -> filler ([47; 42] ++ body ++ [42; 47] ++ g).

Theorem filler_insensitive g l : filler g -> lex_runes L (g ++ l) = lex_runes L l.
Proof.
  induction 1 as [|w g Hw _ IH|body g Hb _ IH]; [reflexivity| |].
  - cbn [app]. rewrite ws_one by exact Hw. exact IH.
  - rewrite <- !app_assoc. rewrite comment_insensitive by exact Hb. exact IH.
Qed.

(* hence a filler may be put in front of any token: if one Lex call on
   w ++ rest gives t and leaves rest, then with a filler before w the token
   list is still t followed by the tokens of rest.  Applied to rest of the
   form g' ++ w' ++ rest' this says that a filler between two tokens (whose
   first rune satisfies the first token's boundary condition) is invisible. *)
Corollary filler_token g w t rest :
  filler g -> readable_head rest = true ->
  lex_one L (w ++ rest) = LOk (Some t, fst (view rest), snd (view rest)) ->
  lex_runes L (g ++ w ++ rest) = t :: lex_runes L rest.
Proof.
  intros Hg Hr H. rewrite filler_insensitive by exact Hg.
  apply lex_runes_step; assumption.
Qed.

Corollary filler_between w t g rest :
  filler g -> readable_head (g ++ rest) = true ->
  lex_one L (w ++ g ++ rest) = LOk (Some t, fst (view (g ++ rest)), snd (view (g ++ rest))) ->
  lex_runes L (w ++ g ++ rest) = t :: lex_runes L rest.
Proof.
  intros Hg Hr H. rewrite (lex_runes_step L _ _ _ H Hr).
  rewrite filler_insensitive by exact Hg. reflexivity.
Qed.
End Comments.

(* ------------------------------------------------------------------ *)
(* 4. every lexer state returned by a scanning function is canonical: the
      look-ahead is either end of input (-1 with nothing left) or a rune that
      next() accepted.  Hence lex_runes_cons needs no side condition. *)
Definition cst (p : Z * list Z) : Prop := canon_state (fst p) (snd p).

Lemma next_canon rest : resP (fun a => cst (p2 a)) (next rest).
Proof.
  destruct rest as [|c r]; cbn [next]; [left; split; reflexivity|].
  destruct (check_cases c) as [[E P]|[e [E N]]]; rewrite E; cbn [lbind resP]; [right; exact P|exact I].
Qed.

Lemma skip_ws_canon rest : forall ch, canon_state ch rest -> resP (fun a => cst (p2 a)) (skip_ws ch rest).
Proof.
  induction rest as [|c r IH]; intros ch Hc; cbn [skip_ws]; destruct (is_ws ch); try exact Hc.
  - left. split; reflexivity.
  - destruct (check_cases c) as [[E P]|[e [E N]]]; rewrite E; cbn [lbind resP]; [|exact I].
    apply IH. right. exact P.
Qed.

Lemma digits_canon base rest : forall ch acc ds inv,
  canon_state ch rest -> resP (fun a => cst (p5 a)) (digits base ch rest acc ds inv).
Proof.
  induction rest as [|c r IH]; intros ch acc ds inv Hc; cbn [digits];
    destruct ((if base <=? 10 then is_decimal ch else is_hex ch) || (ch =? 95)); try exact Hc.
  - left. split; reflexivity.
  - destruct (check_cases c) as [[E P]|[e [E N]]]; rewrite E; cbn [lbind resP]; [|exact I].
    apply IH. right. exact P.
Qed.

Ltac cnorm := unfold cst in *; cbn [p2 p3 p5 pn pt po3 fst snd] in *.

Ltac cstep :=
  match goal with
  | |- resP _ (lbind (next _) _) => eapply resP_bind; [apply next_canon|]; intros [? ?] ?; cnorm
  | |- resP _ (lbind (digits _ _ _ _ _ _) _) =>
      eapply resP_bind; [apply digits_canon; assumption|]; intros [[[[? ?] ?] ?] ?] ?; cnorm
  | |- resP _ (lbind (if ?c then _ else _) _) => destruct c
  | |- resP _ (lbind (LOk _) _) => cbn [lbind]
  | |- resP _ (lbind (LErr _) _) => exact I
  | |- resP _ (lbind (lbind _ _) _) => rewrite lbind_assoc
  | |- resP _ (lbind (let (_, _) := ?p in _) _) => destruct p
  | |- resP _ (if ?c then _ else _) => destruct c
  | |- resP _ (let (_, _) := ?p in _) => destruct p
  | |- resP _ (LErr _) => exact I
  | |- resP _ (LOk _) => cbn [resP]; cnorm; first [assumption | right; lia | left; split; reflexivity]
  end.

Section Canon.
Variable L : GoLib.

Lemma scan_number_tail_canon tok base prefix ch rest acc digSep inv sd :
  canon_state ch rest ->
  resP (fun a => cst (pn a)) (scan_number_tail L tok base prefix ch rest acc digSep inv sd).
Proof. intros Hc. unfold scan_number_tail. repeat cstep. Qed.

Lemma scan_number_canon ch rest sd :
  canon_state ch rest -> resP (fun a => cst (pn a)) (scan_number L ch rest sd).
Proof.
  intros Hc. unfold scan_number.
  repeat first
    [ match goal with
      | |- resP _ (scan_number_tail _ _ _ _ _ _ _ _ _ _) => apply scan_number_tail_canon; assumption
      end
    | cstep ].
Qed.

Lemma scan_unicode_canon rest buf : resP (fun a => cst (p3 a)) (scan_unicode rest buf).
Proof.
  unfold scan_unicode. apply resP_bind_any. intros [rr r].
  destruct (is_surrogate rr).
  - repeat first
      [ match goal with
        | |- resP _ (lbind (decode_unicode _) _) => apply resP_bind_any; intros [? ?]
        | |- resP _ (match utf16_pair ?a ?b with _ => _ end) => destruct (utf16_pair a b)
        end
      | cstep ].
  - repeat cstep.
Qed.

Lemma scan_hex_canon rest buf : resP (fun a => cst (p3 a)) (scan_hex rest buf).
Proof. unfold scan_hex. repeat cstep. Qed.

Lemma scan_escape_canon rest buf : resP (fun a => cst (p3 a)) (scan_escape rest buf).
Proof.
  unfold scan_escape.
  repeat first
    [ match goal with
      | |- resP _ (scan_hex _ _) => apply scan_hex_canon
      | |- resP _ (scan_unicode _ _) => apply scan_unicode_canon
      end
    | cstep ].
Qed.

Lemma string_loop_canon f : forall ch rest buf, resP (fun a => cst (p3 a)) (string_loop f ch rest buf).
Proof.
  induction f as [|f IH]; intros ch rest buf; [exact I|]. cbn [string_loop].
  destruct (ch =? 34); [repeat cstep|].
  destruct ((ch =? 10) || (ch <? 0)); [exact I|].
  destruct (ch =? 92).
  - apply resP_bind_any. intros [[c r] b]. apply IH.
  - apply resP_bind_any. intros [c r]. apply IH.
Qed.

Lemma scan_string_canon rest : resP (fun a => cst (p3 a)) (scan_string rest).
Proof. unfold scan_string. apply resP_bind_any. intros [c r]. apply string_loop_canon. Qed.

Lemma ident_loop_canon f : forall ch rest buf,
  canon_state ch rest -> resP (fun a => cst (p3 a)) (ident_loop L f ch rest buf).
Proof.
  induction f as [|f IH]; intros ch rest buf Hc; [exact I|]. cbn [ident_loop].
  destruct (is_ident_rune L ch false); [|exact Hc].
  destruct (ch =? 92).
  - eapply resP_bind; [apply scan_escape_canon|]. intros [[c r] b] H. apply IH. exact H.
  - eapply resP_bind; [apply next_canon|]. intros [c r] H. apply IH. exact H.
Qed.

Lemma scan_ident_canon ch rest : resP (fun a => cst (pt a)) (scan_ident L ch rest).
Proof.
  unfold scan_ident.
  eapply resP_bind with (Q := fun a => cst (p3 a)).
  { destruct (ch =? 92); [apply scan_escape_canon|]. repeat cstep. }
  intros [[c r] b] H. cnorm.
  eapply resP_bind; [apply ident_loop_canon; exact H|].
  intros [[c' r'] b'] H'. exact H'.
Qed.

Lemma var_loop_canon rest : forall ch buf,
  canon_state ch rest -> resP (fun a => cst (p3 a)) (var_loop L ch rest buf).
Proof.
  induction rest as [|c r IH]; intros ch buf Hc; cbn [var_loop];
    destruct (is_variable_rune L ch); try exact Hc.
  - left. split; reflexivity.
  - destruct (check_cases c) as [[E P]|[e [E N]]]; rewrite E; cbn [lbind resP]; [|exact I].
    apply IH. right. exact P.
Qed.

Lemma scan_variable_canon rest : resP (fun a => cst (pt a)) (scan_variable L rest).
Proof.
  unfold scan_variable. eapply resP_bind; [apply next_canon|]. intros [ch r] H. cnorm.
  destruct (ch =? 34).
  - eapply resP_bind; [apply scan_string_canon|]. intros [[c r'] b] H'. exact H'.
  - destruct (is_variable_rune L ch).
    + eapply resP_bind; [apply var_loop_canon; exact H|]. intros [[c r'] b] H'. exact H'.
    + exact H.
Qed.

Lemma comment_loop_canon rest : forall ch, resP (fun a => cst (p2 a)) (comment_loop ch rest).
Proof.
  induction rest as [|c r IH]; intros ch; cbn [comment_loop]; destruct (ch <? 0); try exact I.
  destruct (check c); cbn [lbind]; [|exact I].
  destruct ((ch =? 42) && (c =? 47)); [apply next_canon|apply IH].
Qed.

Lemma scan_comment_canon rest : resP (fun a => cst (p2 a)) (scan_comment rest).
Proof. unfold scan_comment. apply resP_bind_any. intros [c r]. apply comment_loop_canon. Qed.

Lemma scan_operator_canon ch rest : resP (fun a => cst (pt a)) (scan_operator ch rest).
Proof. unfold scan_operator. repeat cstep. Qed.

Lemma lex_tok_canon f : forall ch rest,
  canon_state ch rest -> resP (fun a => cst (po3 a)) (lex_tok L f ch rest).
Proof.
  induction f as [|f IH]; intros ch rest Hc; [exact I|]. rewrite lex_tok_S.
  eapply resP_bind; [apply skip_ws_canon; exact Hc|]. intros [c1 r1] H1. cnorm.
  unfold lex_body.
  destruct (is_ident_rune L c1 true).
  { eapply resP_bind; [apply scan_ident_canon|]. intros [[t c] r] H. exact H. }
  destruct (is_decimal c1).
  { eapply resP_bind; [apply scan_number_canon; exact H1|]. intros [[[k txt] c] r] H. exact H. }
  destruct (c1 <? 0); [exact H1|].
  destruct (c1 =? 34).
  { eapply resP_bind; [apply scan_string_canon|]. intros [[c r] b] H. exact H. }
  destruct (c1 =? 36).
  { eapply resP_bind; [apply scan_variable_canon|]. intros [[t c] r] H. exact H. }
  destruct (c1 =? 47).
  { eapply resP_bind; [apply next_canon|]. intros [c r] H. cnorm. destruct (c =? 42); [|exact H].
    eapply resP_bind; [apply scan_comment_canon|]. intros [c' r'] H'. apply IH. exact H'. }
  destruct (c1 =? 46).
  { eapply resP_bind; [apply next_canon|]. intros [c r] H. cnorm. destruct (is_decimal c); [|exact H].
    eapply resP_bind; [apply scan_number_canon; exact H|]. intros [[[k txt] c'] r'] H'. exact H'. }
  destruct (57344 <=? c1); [exact I|].
  eapply resP_bind; [apply scan_operator_canon|]. intros [[t c] r] H. exact H.
Qed.

Theorem lex_one_canon l o c r : lex_one L l = LOk (o, c, r) -> canon_state c r.
Proof.
  unfold lex_one. intros H.
  pose proof (next_canon l) as Hn. destruct (next l) as [[ch rest]|e]; cbn [lbind] in H; [|discriminate].
  cbn [resP] in Hn. cnorm.
  pose proof (lex_tok_canon (S (length rest)) ch rest Hn) as Ht. rewrite H in Ht. exact Ht.
Qed.

(* composition, without side condition: one Lex call, then the rest *)
Theorem lex_runes_compose l t c r :
  lex_one L l = LOk (Some t, c, r) -> lex_runes L l = t :: lex_runes L (stream c r).
Proof. intros H. apply lex_runes_cons; [exact H|]. eapply lex_one_canon. exact H. Qed.
End Canon.

Print Assumptions lex_runes_compose.
Print Assumptions lex_runes_cons.
Print Assumptions ws_insensitive.
Print Assumptions filler_insensitive.
Print Assumptions filler_between.
