(* MethodProofs.v — C16: item methods convert within their documented domains
   and ranges.  All statements are about the [leaf_*] functions of
   model/Leaf.v (arrays are unwrapped by the caller in lax mode).

   1. .type()  2. .size()
   3. the converters: accepted input kinds, suppressible errors on the rest,
      result ranges (.integer() int32, .bigint() int64, .double()/.number()
      finite)
   4. .boolean() and the exact set of accepted strings
   5. .decimal(p,s): validation table, digit count (with the exclusion for
      zero digits) and the two refuted witnesses
   6. .abs() .floor() .ceiling()
   7. .string() round trips

   No reals.  Theorems are closed under the global context. *)
From Coq Require Import ZArith Bool List Lia ZifyBool String Ascii.
From Coq Require Import Floats.SpecFloat.
From SJ Require Import lib.Base lib.F64 lib.Strconv model.Json model.Ast model.ExecLib model.Leaf
  extract.Instance proofs.LeafLaws proofs.ArithProofs.

Local Open Scope string_scope.
Local Open Scope Z_scope.

Definition is_num (v : json) : bool := match v with JNum _ => true | _ => false end.
Definition is_num_or_str (v : json) : bool := match v with JNum _ | JStr _ => true | _ => false end.

(* destruct every stuck match in the goal/hypothesis H until the leaf result is visible *)
Ltac split_matches H :=
  repeat match type of H with
         | context [match ?x with _ => _ end] => destruct x eqn:?
         end.

(* ================================================================== *)
(* 1. .type()                                                           *)
(* ================================================================== *)
Theorem C16_type_total v : leaf_type v = LItem (JStr (type_name v)).
Proof. reflexivity. Qed.

Theorem C16_type_names :
  type_name JNull = "null" /\
  (forall b, type_name (JBool b) = "boolean") /\
  (forall n, type_name (JNum n) = "number") /\
  (forall s, type_name (JStr s) = "string") /\
  (forall t l, type_name (JArr t l) = "array") /\
  (forall t l, type_name (JObj t l) = "object") /\
  (forall s n o, type_name (JDt (mkdt KDate s n o)) = "date") /\
  (forall s n o, type_name (JDt (mkdt KTime s n o)) = "time without time zone") /\
  (forall s n o, type_name (JDt (mkdt KTimeTZ s n o)) = "time with time zone") /\
  (forall s n o, type_name (JDt (mkdt KTimestamp s n o)) = "timestamp without time zone") /\
  (forall s n o, type_name (JDt (mkdt KTimestampTZ s n o)) = "timestamp with time zone").
Proof. repeat split. Qed.

(* ================================================================== *)
(* 2. .size()                                                           *)
(* ================================================================== *)
Theorem C16_size_array laxm ign t es :
  leaf_size laxm ign (JArr t es) = LItem (JNum (NInt (Z.of_nat (List.length es)))).
Proof. reflexivity. Qed.

Theorem C16_size_non_array laxm ign v :
  is_array v = false ->
  leaf_size laxm ign v =
  if negb laxm && negb ign then LErr (EVerbose ".size() can only be applied to an array")
  else LItem (JNum (NInt 1)).
Proof. destruct v; intros H; try discriminate H; reflexivity. Qed.

Corollary C16_size_lax_non_array ign v : is_array v = false -> leaf_size true ign v = LItem (JNum (NInt 1)).
Proof. intros H. rewrite C16_size_non_array by exact H. reflexivity. Qed.

Corollary C16_size_strict_non_array v :
  is_array v = false -> leaf_size false false v = LErr (EVerbose ".size() can only be applied to an array").
Proof. intros H. rewrite C16_size_non_array by exact H. reflexivity. Qed.

Section Methods.
Variable L : ExecLib.

(* ================================================================== *)
(* 3. The converters                                                    *)
(* ================================================================== *)

(* ---- .double() ---- *)
Theorem C16_double_rejects v :
  is_num_or_str v = false ->
  leaf_double L v = LErr (EVerbose ".double() can only be applied to a string or numeric value").
Proof. destruct v; intros H; try discriminate H; reflexivity. Qed.

Theorem C16_double_errors_verbose v e : leaf_double L v = LErr e -> is_verbose e = true.
Proof.
  unfold leaf_double. intros H. split_matches H; try discriminate H; injection H as <-; reflexivity.
Qed.

(* the result is a finite double, and only numbers and strings are accepted *)
Theorem C16_double_result v r :
  leaf_double L v = LItem r ->
  is_num_or_str v = true /\ exists d, r = JNum (NFlt d) /\ nan_or_inf d = false.
Proof.
  unfold leaf_double. intros H. split_matches H; try discriminate H; injection H as <-;
    (split; [reflexivity|eexists; split; [reflexivity|assumption]]).
Qed.

(* what is converted: float64(int64), the float64 itself, ParseFloat of the text *)
Definition double_finish (d : f64) : leaf :=
  if nan_or_inf d then LErr (EVerbose "NaN or Infinity is not allowed for .double()")
  else LItem (JNum (NFlt d)).

Theorem C16_double_table :
  (forall z, leaf_double L (JNum (NInt z)) = double_finish (xl_of_Z L z)) /\
  (forall f, leaf_double L (JNum (NFlt f)) = double_finish f) /\
  (forall t f, xl_parse_float L t = Some (f, false) ->
               leaf_double L (JNum (NJs t)) = double_finish f /\ leaf_double L (JStr t) = double_finish f) /\
  (forall t, (forall f, xl_parse_float L t <> Some (f, false)) ->
             leaf_double L (JStr t) = LErr (EVerbose ".double(): invalid for type double precision")).
Proof.
  repeat split; try reflexivity.
  - unfold leaf_double, js_float64. rewrite H. reflexivity.
  - unfold leaf_double. rewrite H. reflexivity.
  - intros t H. unfold leaf_double. destruct (xl_parse_float L t) as [[f []]|]; try reflexivity.
    exfalso. apply (H f). reflexivity.
Qed.

(* ---- .number() (and .decimal() without arguments) ---- *)
Theorem C16_number_rejects dec v :
  is_num_or_str v = false ->
  leaf_number L dec v = LErr (EVerbose ".number() can only be applied to a string or numeric value").
Proof. destruct v; intros H; try discriminate H; reflexivity. Qed.

Theorem C16_number_errors_verbose v e : leaf_number L None v = LErr e -> is_verbose e = true.
Proof.
  unfold leaf_number. intros H. split_matches H; try discriminate H; injection H as <-; reflexivity.
Qed.

Theorem C16_number_result v r :
  leaf_number L None v = LItem r ->
  is_num_or_str v = true /\ exists d, r = JNum (NFlt d) /\ nan_or_inf d = false.
Proof.
  unfold leaf_number. intros H. split_matches H; try discriminate H; injection H as <-;
    (split; [reflexivity|eexists; split; [reflexivity|assumption]]).
Qed.

Theorem C16_decimal_noargs v : leaf_number L (Some (None, None)) v = leaf_number L None v.
Proof.
  unfold leaf_number, executeDecimalMethod.
  destruct v as [| |[z|f|t]|t| | |]; try reflexivity;
    repeat match goal with |- context [match ?x with _ => _ end] => destruct x end; reflexivity.
Qed.

(* ---- .integer() ---- *)
Theorem C16_integer_rejects v :
  is_num_or_str v = false ->
  leaf_integer L v = LErr (EVerbose ".integer() can only be applied to a string or numeric value").
Proof. destruct v; intros H; try discriminate H; reflexivity. Qed.

Theorem C16_integer_errors_verbose v e : leaf_integer L v = LErr e -> is_verbose e = true.
Proof.
  unfold leaf_integer. intros H. split_matches H; try discriminate H; injection H as <-; reflexivity.
Qed.

(* never a value outside int32 *)
Theorem C16_integer_range v r :
  leaf_integer L v = LItem r -> is_num_or_str v = true /\ exists z, r = JNum (NInt z) /\ in_int32 z = true.
Proof.
  unfold leaf_integer. intros H. split_matches H; try discriminate H; injection H as <-;
    (split; [reflexivity|eexists; split; [reflexivity|assumption]]).
Qed.

Definition integer_finish (z : Z) : leaf :=
  if in_int32 z then LItem (JNum (NInt z)) else LErr (EVerbose ".integer(): invalid for type integer").

(* an integer is kept; a float is rounded half away from zero (math.Round) and
   converted; a string is read by ParseInt(s, 10, 32) *)
Theorem C16_integer_table :
  (forall z, leaf_integer L (JNum (NInt z)) = integer_finish z) /\
  (forall f, leaf_integer L (JNum (NFlt f)) = integer_finish (xl_to_int64 L (xl_round L f))) /\
  (forall t z, js_int64 L t = Some z -> leaf_integer L (JNum (NJs t)) = integer_finish z) /\
  (forall t f, js_int64 L t = None -> js_float64 L t = Some (f, false) ->
               leaf_integer L (JNum (NJs t)) = integer_finish (xl_to_int64 L (xl_round L f))) /\
  (forall t z, xl_parse_int L 10 32 t = Some z -> leaf_integer L (JStr t) = integer_finish z).
Proof.
  repeat split; try reflexivity; intros; unfold leaf_integer.
  - rewrite H. reflexivity.
  - rewrite H, H0. reflexivity.
  - rewrite H. reflexivity.
Qed.

(* ---- .bigint() ---- *)
Theorem C16_bigint_rejects v :
  is_num_or_str v = false ->
  leaf_bigint L v = LErr (EVerbose ".bigint() can only be applied to a string or numeric value").
Proof. destruct v; intros H; try discriminate H; reflexivity. Qed.

Theorem C16_bigint_errors_verbose v e : leaf_bigint L v = LErr e -> is_verbose e = true.
Proof.
  unfold leaf_bigint. intros H. split_matches H; try discriminate H; injection H as <-; reflexivity.
Qed.

(* never a value outside int64 (an int64 item is returned as it is) *)
Theorem C16_bigint_range v r :
  NumLaws L ->
  (forall z, v = JNum (NInt z) -> in_int64 z = true) ->
  leaf_bigint L v = LItem r -> is_num_or_str v = true /\ exists z, r = JNum (NInt z) /\ in_int64 z = true.
Proof.
  intros NL Hin. unfold leaf_bigint. intros H. split_matches H; try discriminate H; injection H as <-;
    (split; [reflexivity|eexists; split; [reflexivity|]]);
    try (apply (nl_to_int64_range L NL));
    try (eapply (nl_js_int64_range L NL); eassumption).
  apply Hin. reflexivity.
Qed.

(* a float outside [-2^63, 2^63), an infinity or a NaN is rejected before the conversion *)
Theorem C16_bigint_float_guard f :
  bigint_out_of_range f = true ->
  leaf_bigint L (JNum (NFlt f)) = LErr (EVerbose ".bigint(): invalid for type bigint").
Proof. intros H. unfold leaf_bigint. rewrite H. reflexivity. Qed.

Theorem C16_bigint_table :
  (forall z, leaf_bigint L (JNum (NInt z)) = LItem (JNum (NInt z))) /\
  (forall f, bigint_out_of_range f = false ->
             leaf_bigint L (JNum (NFlt f)) = LItem (JNum (NInt (xl_to_int64 L (xl_round L f))))) /\
  (forall t z, js_int64 L t = Some z -> leaf_bigint L (JNum (NJs t)) = LItem (JNum (NInt z))) /\
  (forall t z, xl_parse_int L 10 64 t = Some z -> leaf_bigint L (JStr t) = LItem (JNum (NInt z))).
Proof.
  repeat split; try reflexivity; intros; unfold leaf_bigint.
  - rewrite H. reflexivity.
  - rewrite H. reflexivity.
  - rewrite H. reflexivity.
Qed.

(* ---- .string() ---- *)
Definition stringable (v : json) : bool :=
  match v with JStr _ | JDt _ | JNum _ | JBool _ => true | _ => false end.

Theorem C16_string_rejects v :
  stringable v = false ->
  leaf_string L v = LErr (EVerbose ".string() can only be applied to a boolean, string, numeric, or datetime value").
Proof. destruct v; intros H; try discriminate H; reflexivity. Qed.

Theorem C16_string_accepts v : stringable v = true -> exists s, leaf_string L v = LItem (JStr s).
Proof. destruct v as [|b|[z|f|t]|t| | |d]; intros H; try discriminate H; eexists; reflexivity. Qed.

Theorem C16_string_table :
  (forall t, leaf_string L (JStr t) = LItem (JStr t)) /\
  (forall t, leaf_string L (JNum (NJs t)) = LItem (JStr t)) /\
  (forall z, leaf_string L (JNum (NInt z)) = LItem (JStr (xl_format_int L z))) /\
  (forall f, leaf_string L (JNum (NFlt f)) = LItem (JStr (xl_format_float L f))) /\
  leaf_string L (JBool true) = LItem (JStr "true") /\
  leaf_string L (JBool false) = LItem (JStr "false") /\
  (forall d, leaf_string L (JDt d) = LItem (JStr (xl_dt_string L d))).
Proof. repeat split. Qed.

(* ================================================================== *)
(* 4. .boolean()                                                        *)
(* ================================================================== *)
Definition booleanable (v : json) : bool :=
  match v with JBool _ | JNum _ | JStr _ => true | _ => false end.

Theorem C16_boolean_rejects v :
  booleanable v = false ->
  leaf_boolean L v = LErr (EVerbose ".boolean() can only be applied to a boolean, string, or numeric value").
Proof. destruct v; intros H; try discriminate H; reflexivity. Qed.

Theorem C16_boolean_errors_verbose v e : leaf_boolean L v = LErr e -> is_verbose e = true.
Proof.
  unfold leaf_boolean. intros H. split_matches H; try discriminate H; injection H as <-; reflexivity.
Qed.

Theorem C16_boolean_result v r : leaf_boolean L v = LItem r -> booleanable v = true /\ exists b, r = JBool b.
Proof.
  unfold leaf_boolean. intros H. split_matches H; try discriminate H; injection H as <-;
    (split; [reflexivity|eexists; reflexivity]).
Qed.

(* a float must be integral (f == Trunc(f)); then it is true iff nonzero *)
Definition boolean_of_float (f : f64) : leaf :=
  if negb (f_eqb f (xl_trunc L f)) then LErr (EVerbose ".boolean(): invalid for type boolean")
  else LItem (JBool (negb (f_eqb f (S754_zero false)))).

Theorem C16_boolean_table :
  (forall b, leaf_boolean L (JBool b) = LItem (JBool b)) /\
  (forall z, leaf_boolean L (JNum (NInt z)) = LItem (JBool (negb (z =? 0)))) /\
  (forall f, leaf_boolean L (JNum (NFlt f)) = boolean_of_float f) /\
  (forall t f, js_float64 L t = Some (f, false) -> leaf_boolean L (JNum (NJs t)) = boolean_of_float f) /\
  (forall t, leaf_boolean L (JStr t) =
             match execBooleanString t with
             | Some b => LItem (JBool b)
             | None => LErr (EVerbose ".boolean(): invalid for type boolean")
             end).
Proof.
  repeat split; try reflexivity. intros t f H. unfold leaf_boolean. rewrite H. reflexivity.
Qed.

End Methods.

(* ---- the exact set of strings .boolean() accepts ---- *)

(* Go's case folding of the text (strings.EqualFold against an ASCII word):
   ASCII upper case to lower case, and U+017F (long s) to "s", U+212A (Kelvin
   sign) to "k" *)
Definition norm (s : string) : string := str_lower (fold_special s).

Fixpoint assoc (k : string) (l : list (string * bool)) : option bool :=
  match l with
  | [] => None
  | (w, b) :: r => if String.eqb k w then Some b else assoc k r
  end.

Definition bool_table : list (string * bool) :=
  [("t", true); ("true", true); ("y", true); ("yes", true); ("on", true); ("1", true);
   ("f", false); ("false", false); ("n", false); ("no", false); ("off", false); ("0", false)].

Lemma fold_special_cons c rest :
  (Z_of_ascii c =? 197) = false -> (Z_of_ascii c =? 226) = false ->
  fold_special (String c rest) = String c (fold_special rest).
Proof.
  intros H1 H2. destruct rest as [|b [|c' r']]; cbn [fold_special]; rewrite ?H1, ?H2; reflexivity.
Qed.

Lemma fold_special_nonempty b r : exists d tl, fold_special (String b r) = String d tl.
Proof.
  destruct r as [|b' [|c' r']]; cbn [fold_special].
  - eauto.
  - destruct ((Z_of_ascii b =? 197) && (Z_of_ascii b' =? 191)); eauto.
  - destruct ((Z_of_ascii b =? 197) && (Z_of_ascii b' =? 191)); [eauto|].
    destruct ((Z_of_ascii b =? 226) && (Z_of_ascii b' =? 132) && (Z_of_ascii c' =? 170)); eauto.
Qed.

Lemma execBooleanString_single c : execBooleanString (String c "") = assoc (norm (String c "")) bool_table.
Proof. destruct c as [[] [] [] [] [] [] [] []]; vm_compute; reflexivity. Qed.

(* a first byte 0xC5 or 0xE2 (the lead bytes of the two special runes) *)
Lemma execBooleanString_special c b r :
  (Z_of_ascii c =? 197) || (Z_of_ascii c =? 226) = true ->
  execBooleanString (String c (String b r)) = assoc (norm (String c (String b r))) bool_table.
Proof.
  intros Hc.
  assert (Hcases : c = ascii_of_Z 197 \/ c = ascii_of_Z 226).
  { apply orb_true_iff in Hc. destruct Hc as [H|H]; [left|right];
      apply Z.eqb_eq in H; unfold Z_of_ascii in H; unfold ascii_of_Z;
      rewrite <- (ascii_N_embedding c); f_equal; lia. }
  assert (Hfirst : exists x tl, norm (String c (String b r)) = String x tl /\
                   (x = c \/ x = "s"%char \/ x = "k"%char)).
  { unfold norm. destruct r as [|c' r']; cbn [fold_special].
    - destruct ((Z_of_ascii c =? 197) && (Z_of_ascii b =? 191)).
      + eexists _, _. split; [reflexivity|]. right; left; reflexivity.
      + destruct Hcases as [-> | ->]; eexists _, _; (split; [reflexivity|]); left; reflexivity.
    - destruct ((Z_of_ascii c =? 197) && (Z_of_ascii b =? 191)).
      + eexists _, _. split; [reflexivity|]. right; left; reflexivity.
      + destruct ((Z_of_ascii c =? 226) && (Z_of_ascii b =? 132) && (Z_of_ascii c' =? 170)).
        * eexists _, _. split; [reflexivity|]. right; right; reflexivity.
        * destruct Hcases as [-> | ->]; eexists _, _; (split; [reflexivity|]); left; reflexivity. }
  destruct Hfirst as (x & tl & -> & Hx).
  destruct Hcases as [-> | ->]; destruct Hx as [-> | [-> | ->]]; reflexivity.
Qed.

Lemma execBooleanString_general c b r :
  (Z_of_ascii c =? 197) || (Z_of_ascii c =? 226) = false ->
  execBooleanString (String c (String b r)) = assoc (norm (String c (String b r))) bool_table.
Proof.
  intros Hc. apply orb_false_iff in Hc. destruct Hc as [H1 H2].
  unfold execBooleanString, equal_fold, norm.
  rewrite (fold_special_cons c (String b r) H1 H2).
  destruct (fold_special_nonempty b r) as (d & tl & ->).
  cbn [str_lower].
  generalize (lower_ascii d) as d'. generalize (str_lower tl) as tl'. intros tl' d'.
  clear H1 H2.
  destruct c as [[] [] [] [] [] [] [] []]; cbv - [String.eqb Ascii.eqb];
    cbn [String.eqb Ascii.eqb Bool.eqb andb]; try reflexivity;
    repeat match goal with
           | |- context [Ascii.eqb d' ?x] => destruct (Ascii.eqb d' x)
           | |- context [String.eqb tl' ?x] => destruct (String.eqb tl' x)
           end; try reflexivity.
Qed.

(* .boolean() of a string accepts exactly t/true/f/false/y/yes/n/no/on/off/1/0
   up to Go's case folding, with these values *)
Theorem execBooleanString_spec s : execBooleanString s = assoc (norm s) bool_table.
Proof.
  destruct s as [|c [|b r]].
  - reflexivity.
  - apply execBooleanString_single.
  - destruct ((Z_of_ascii c =? 197) || (Z_of_ascii c =? 226)) eqn:Hc.
    + apply execBooleanString_special; exact Hc.
    + apply execBooleanString_general; exact Hc.
Qed.

Lemma assoc_In k b l : NoDup (map fst l) -> (assoc k l = Some b <-> In (k, b) l).
Proof.
  induction l as [|[w bw] l IH]; cbn [assoc map fst In]; intros Hnd.
  - split; [discriminate|contradiction].
  - inversion Hnd as [|? ? Hnotin Hnd']; subst.
    destruct (String.eqb_spec k w) as [->|Hne].
    + split.
      * intros H. injection H as <-. left; reflexivity.
      * intros [H|H]; [injection H as <-; reflexivity|].
        exfalso. apply Hnotin. change w with (fst (w, b)). apply in_map. exact H.
    + rewrite (IH Hnd'). split; [auto|]. intros [H|H]; [|exact H]. injection H as -> _. contradiction.
Qed.

Lemma bool_table_nodup : NoDup (map fst bool_table).
Proof.
  cbn. repeat constructor; cbn; intros H;
    repeat match goal with H : _ \/ _ |- _ => destruct H as [H|H] end; try discriminate H; contradiction.
Qed.

Corollary C16_boolean_string_accepts s b :
  execBooleanString s = Some b <-> In (norm s, b) bool_table.
Proof. rewrite execBooleanString_spec. apply assoc_In, bool_table_nodup. Qed.

(* on plain ASCII text the folding is just lower-casing *)
Example C16_boolean_examples :
  execBooleanString "TRUE" = Some true /\ execBooleanString "t" = Some true /\
  execBooleanString "Yes" = Some true /\ execBooleanString "oN" = Some true /\ execBooleanString "1" = Some true /\
  execBooleanString "False" = Some false /\ execBooleanString "N" = Some false /\
  execBooleanString "OFF" = Some false /\ execBooleanString "0" = Some false /\
  execBooleanString "tr" = None /\ execBooleanString "o" = None /\ execBooleanString "2" = None /\
  execBooleanString "" = None /\ execBooleanString " true" = None /\ execBooleanString "10" = None.
Proof. vm_compute. repeat split. Qed.

(* observation: like Go's strings.EqualFold, "fal" ++ U+017F ++ "e" is accepted *)
Example C16_boolean_long_s :
  execBooleanString (String "f" (String "a" (String "l" (String (ascii_of_Z 197) (String (ascii_of_Z 191) "e"))))) = Some false.
Proof. vm_compute. reflexivity. Qed.

(* ================================================================== *)
(* 5. .decimal(p, s)                                                    *)
(* ================================================================== *)
Section Decimal.
Variable L : ExecLib.

(* validation of the precision and scale arguments *)
Theorem C16_decimal_precision_int32 p s num :
  in_int32 p = false ->
  executeDecimalMethod L (Some p) s num = inr (EVerbose "precision is out of integer range").
Proof. intros H. unfold executeDecimalMethod, getNodeInt32. rewrite H. reflexivity. Qed.

Theorem C16_decimal_precision_range p s num :
  in_int32 p = true -> p < 1 \/ p > 1000 ->
  executeDecimalMethod L (Some p) s num = inr (EExec "NUMERIC precision must be between 1 and 1000").
Proof.
  intros H Hr. unfold executeDecimalMethod, getNodeInt32, numericMaxPrecision. rewrite H.
  replace ((p <? 1) || (p >? 1000)) with true by lia. reflexivity.
Qed.

Theorem C16_decimal_scale_int32 p sz num :
  1 <= p <= 1000 -> in_int32 sz = false ->
  executeDecimalMethod L (Some p) (Some sz) num = inr (EVerbose "scale is out of integer range").
Proof.
  intros Hp H. unfold executeDecimalMethod, getNodeInt32, numericMaxPrecision.
  replace (in_int32 p) with true by (unfold in_int32, min_int32, max_int32; lia).
  replace ((p <? 1) || (p >? 1000)) with false by lia. rewrite H. reflexivity.
Qed.

Theorem C16_decimal_scale_range p sz num :
  1 <= p <= 1000 -> in_int32 sz = true -> sz < -1000 \/ sz > 1000 ->
  executeDecimalMethod L (Some p) (Some sz) num = inr (EExec "NUMERIC scale out of range").
Proof.
  intros Hp H Hr. unfold executeDecimalMethod, getNodeInt32, numericMaxPrecision, numericMinScale, numericMaxScale.
  replace (in_int32 p) with true by (unfold in_int32, min_int32, max_int32; lia).
  replace ((p <? 1) || (p >? 1000)) with false by lia. rewrite H.
  replace ((sz <? -1000) || (sz >? 1000)) with true by lia. reflexivity.
Qed.

(* with valid arguments: round half away from zero at the scale, then count digits *)
Definition decimal_round (scale : Z) (num : f64) : f64 :=
  fdiv (xl_round L (fmul num (xl_pow10 L scale))) (xl_pow10 L scale).

Definition scale_of (s : option Z) : Z := match s with Some sz => sz | None => 0 end.

Theorem C16_decimal_valid_args p s num :
  1 <= p <= 1000 -> -1000 <= scale_of s <= 1000 ->
  executeDecimalMethod L (Some p) s num =
  let r := decimal_round (scale_of s) num in
  let count := count_nonzero_before_dot (xl_format_float L r) in
  if (count >? 0) && (count >? p - scale_of s)
  then inr (EVerbose "argument of .decimal() is invalid for type numeric")
  else inl r.
Proof.
  intros Hp Hs. unfold executeDecimalMethod, getNodeInt32, numericMaxPrecision, numericMinScale, numericMaxScale.
  replace (in_int32 p) with true by (unfold in_int32, min_int32, max_int32; lia).
  replace ((p <? 1) || (p >? 1000)) with false by lia.
  destruct s as [sz|]; cbn [scale_of] in *.
  - replace (in_int32 sz) with true by (unfold in_int32, min_int32, max_int32; lia).
    replace ((sz <? -1000) || (sz >? 1000)) with false by lia. reflexivity.
  - reflexivity.
Qed.

(* every error of .decimal(p,s) is suppressible except the two argument-range
   errors, which are ErrExecution by design *)
Theorem C16_decimal_errors p s num e :
  executeDecimalMethod L (Some p) s num = inr e ->
  is_verbose e = true \/
  (e = EExec "NUMERIC precision must be between 1 and 1000" /\ (p < 1 \/ p > 1000)) \/
  (e = EExec "NUMERIC scale out of range" /\ exists sz, s = Some sz /\ (sz < -1000 \/ sz > 1000)).
Proof.
  unfold executeDecimalMethod, getNodeInt32, numericMaxPrecision, numericMinScale, numericMaxScale.
  destruct (in_int32 p); [|intros H; injection H as <-; left; reflexivity].
  destruct ((p <? 1) || (p >? 1000)) eqn:Ep; [intros H; injection H as <-; right; left; split; [reflexivity|lia]|].
  destruct s as [sz|].
  - destruct (in_int32 sz); [|intros H; injection H as <-; left; reflexivity].
    destruct ((sz <? -1000) || (sz >? 1000)) eqn:Es.
    + intros H; injection H as <-. right; right. split; [reflexivity|]. exists sz. split; [reflexivity|lia].
    + match goal with |- context [if ?c then _ else _] => destruct c end; intros H; [|discriminate H].
      injection H as <-. left; reflexivity.
  - match goal with |- context [if ?c then _ else _] => destruct c end; intros H; [|discriminate H].
    injection H as <-. left; reflexivity.
Qed.

(* the digit-count guarantee the code gives: NONZERO integral digits *)
Theorem C16_decimal_digit_count p s num r :
  1 <= p <= 1000 -> -1000 <= scale_of s <= 1000 ->
  executeDecimalMethod L (Some p) s num = inl r ->
  r = decimal_round (scale_of s) num /\
  (count_nonzero_before_dot (xl_format_float L r) <= Z.max 0 (p - scale_of s)).
Proof.
  intros Hp Hs. rewrite C16_decimal_valid_args by assumption. cbv zeta.
  destruct ((_ >? 0) && (_ >? p - scale_of s)) eqn:E; intros H; [discriminate H|].
  injection H as <-. split; [reflexivity|]. lia.
Qed.

(* ... and so for the item method: .decimal(p,s) never raises ErrInvalid, and
   ErrExecution only for an out-of-range precision or scale *)
Theorem C16_decimal_leaf_errors p s v e :
  leaf_number L (Some (Some p, s)) v = LErr e ->
  is_verbose e = true \/
  (e = EExec "NUMERIC precision must be between 1 and 1000" /\ (p < 1 \/ p > 1000)) \/
  (e = EExec "NUMERIC scale out of range" /\ exists sz, s = Some sz /\ (sz < -1000 \/ sz > 1000)).
Proof.
  unfold leaf_number. intros H.
  repeat match type of H with
         | context [match executeDecimalMethod L ?a ?b ?c with _ => _ end] =>
             destruct (executeDecimalMethod L a b c) as [r|e'] eqn:ED
         | context [match ?x with _ => _ end] => destruct x eqn:?
         end; try discriminate H; injection H as <-;
    try (left; reflexivity); eapply C16_decimal_errors; exact ED.
Qed.

End Decimal.

(* all decimal digits before the point *)
Fixpoint count_digits_before_dot (s : string) : Z :=
  match s with
  | EmptyString => 0
  | String c r =>
      let n := Z_of_ascii c in
      if n =? 46 then 0
      else (if (48 <=? n) && (n <=? 57) then 1 else 0) + count_digits_before_dot r
  end.

(* no '0' before the point *)
Fixpoint no_zero_digit_before_dot (s : string) : bool :=
  match s with
  | EmptyString => true
  | String c r =>
      let n := Z_of_ascii c in
      if n =? 46 then true else negb (n =? 48) && no_zero_digit_before_dot r
  end.

Lemma count_nonzero_le_digits s : count_nonzero_before_dot s <= count_digits_before_dot s.
Proof.
  induction s as [|c r IH]; cbn [count_nonzero_before_dot count_digits_before_dot]; [lia|].
  destruct (Z_of_ascii c =? 46); [lia|].
  destruct ((49 <=? Z_of_ascii c) && (Z_of_ascii c <=? 57)) eqn:E1,
           ((48 <=? Z_of_ascii c) && (Z_of_ascii c <=? 57)) eqn:E2; lia.
Qed.

Lemma count_nonzero_eq_digits s :
  no_zero_digit_before_dot s = true -> count_nonzero_before_dot s = count_digits_before_dot s.
Proof.
  induction s as [|c r IH]; cbn [count_nonzero_before_dot count_digits_before_dot no_zero_digit_before_dot];
    [reflexivity|].
  destruct (Z_of_ascii c =? 46); [reflexivity|].
  intros H. apply andb_true_iff in H. destruct H as [H0 Hr]. rewrite (IH Hr).
  destruct ((49 <=? Z_of_ascii c) && (Z_of_ascii c <=? 57)) eqn:E1,
           ((48 <=? Z_of_ascii c) && (Z_of_ascii c <=? 57)) eqn:E2; lia.
Qed.

(* the documented guarantee (at most p - s integral digits) holds when the
   integral part of the result contains no zero digit — the exclusion *)
Theorem C16_decimal_digits_excl L p s num r :
  1 <= p <= 1000 -> -1000 <= scale_of s <= 1000 ->
  executeDecimalMethod L (Some p) s num = inl r ->
  no_zero_digit_before_dot (xl_format_float L r) = true ->
  count_digits_before_dot (xl_format_float L r) <= Z.max 0 (p - scale_of s).
Proof.
  intros Hp Hs H Hz. rewrite <- (count_nonzero_eq_digits _ Hz).
  apply (C16_decimal_digit_count L p s num r Hp Hs H).
Qed.

(* Known finding: zero digits are not counted, so .decimal(2,0) accepts 100 *)
Theorem C16_refuted_decimal_zeros :
  match leaf_number lib0 (Some (Some 2, Some 0)) (JNum (NInt 100)) with
  | LItem (JNum (NFlt r)) =>
      format_float_f r = "100" /\ count_digits_before_dot (format_float_f r) = 3 /\
      count_nonzero_before_dot (format_float_f r) = 1
  | _ => False
  end.
Proof. vm_compute. repeat split. Qed.

(* non-vacuity of the exclusion, and the check does work without zero digits *)
Example C16_decimal_examples :
  leaf_number lib0 (Some (Some 2, Some 0)) (JNum (NInt 123)) =
    LErr (EVerbose "argument of .decimal() is invalid for type numeric") /\
  match leaf_number lib0 (Some (Some 3, Some 0)) (JNum (NInt 123)) with
  | LItem (JNum (NFlt r)) => format_float_f r = "123" /\ no_zero_digit_before_dot (format_float_f r) = true
  | _ => False
  end.
Proof. vm_compute. repeat split. Qed.

(* Known finding: Pow10(1000) = +Inf, so .decimal(1000,1000) of 1.5 is Inf/Inf = NaN,
   returned as a value although .number() promises a finite double *)
Definition f_1_5 : f64 := S754_finite false 6755399441055744 (-52).
Theorem C16_refuted_decimal_nan :
  leaf_number lib0 (Some (Some 1000, Some 1000)) (JNum (NFlt f_1_5)) = LItem (JNum (NFlt S754_nan)) /\
  format_float_f f_1_5 = "1.5".
Proof. vm_compute. split; reflexivity. Qed.

(* ================================================================== *)
(* 6. .abs() .floor() .ceiling()                                        *)
(* ================================================================== *)
Section Numeric.
Variable L : ExecLib.

Theorem C16_numeric_rejects icb fcb v :
  is_num v = false ->
  leaf_numeric L icb fcb v = LErr (EVerbose "numeric item method can only be applied to a numeric value").
Proof. destruct v; intros H; try discriminate H; reflexivity. Qed.

Theorem C16_numeric_errors_verbose icb fcb v e : leaf_numeric L icb fcb v = LErr e -> is_verbose e = true.
Proof.
  unfold leaf_numeric. intros H. split_matches H; try discriminate H; injection H as <-; reflexivity.
Qed.

Theorem C16_numeric_table icb fcb :
  (forall z, leaf_numeric L icb fcb (JNum (NInt z)) = LItem (JNum (NInt (icb z)))) /\
  (forall f, leaf_numeric L icb fcb (JNum (NFlt f)) = LItem (JNum (NFlt (fcb f)))) /\
  (forall t z, js_int64 L t = Some z -> leaf_numeric L icb fcb (JNum (NJs t)) = LItem (JNum (NInt (icb z)))) /\
  (forall t f, js_int64 L t = None -> js_float64 L t = Some (f, false) ->
               leaf_numeric L icb fcb (JNum (NJs t)) = LItem (JNum (NFlt (fcb f)))).
Proof.
  repeat split; try reflexivity; intros; unfold leaf_numeric, castJSONNumber.
  - rewrite H. reflexivity.
  - rewrite H, H0. reflexivity.
Qed.

(* which callbacks the three methods use *)
Theorem C16_method_callbacks laxm ign :
  method_leaf L laxm ign MAbs = Some (true, leaf_numeric L intAbs fabs) /\
  method_leaf L laxm ign MFloor = Some (true, leaf_numeric L (fun x => x) (xl_floor L)) /\
  method_leaf L laxm ign MCeiling = Some (true, leaf_numeric L (fun x => x) (xl_ceil L)).
Proof. repeat split. Qed.

(* .abs() of an int64 is its absolute value, except MinInt64 (wraps: known finding) *)
Theorem C16_abs_int z :
  in_int64 z = true -> z <> min_int64 ->
  leaf_numeric L intAbs fabs (JNum (NInt z)) = LItem (JNum (NInt (Z.abs z))).
Proof. intros Hz Hm. cbn. rewrite C13_intAbs_exact by assumption. reflexivity. Qed.

Theorem C16_refuted_abs_min :
  leaf_numeric L intAbs fabs (JNum (NInt min_int64)) = LItem (JNum (NInt min_int64)).
Proof. reflexivity. Qed.

(* .abs() of a float clears the sign; .floor()/.ceiling() keep integers *)
Theorem C16_abs_float f :
  leaf_numeric L intAbs fabs (JNum (NFlt f)) = LItem (JNum (NFlt (SFabs f))).
Proof. reflexivity. Qed.

Theorem C16_floor_ceiling_int z :
  leaf_numeric L (fun x => x) (xl_floor L) (JNum (NInt z)) = LItem (JNum (NInt z)) /\
  leaf_numeric L (fun x => x) (xl_ceil L) (JNum (NInt z)) = LItem (JNum (NInt z)).
Proof. split; reflexivity. Qed.

End Numeric.

(* the concrete math.Floor / math.Ceil leave integral floats unchanged and
   never produce NaN from a number *)
Theorem C16_floor_integral s m e : 0 <= e -> f64_floor (S754_finite s m e) = S754_finite s m e.
Proof. intros H. cbn. replace (0 <=? e) with true by lia. reflexivity. Qed.
Theorem C16_ceil_integral s m e : 0 <= e -> f64_ceil (S754_finite s m e) = S754_finite s m e.
Proof.
  intros H. unfold f64_ceil. cbn. replace (0 <=? e) with true by lia. cbn. rewrite negb_involutive. reflexivity.
Qed.

(* ================================================================== *)
(* 7. .string() round trips                                             *)
(* ================================================================== *)
Section RoundTrip.
Variable L : ExecLib.
Hypothesis NL : NumLaws L.

(* .string().bigint() / .string().integer() give the integer back *)
Theorem C16_string_bigint_roundtrip z :
  in_int64 z = true ->
  exists s, leaf_string L (JNum (NInt z)) = LItem (JStr s) /\ leaf_bigint L (JStr s) = LItem (JNum (NInt z)).
Proof.
  intros Hz. eexists. split; [reflexivity|]. cbn.
  rewrite (nl_parse_format_int64 L NL z Hz). reflexivity.
Qed.

Theorem C16_string_integer_roundtrip z :
  in_int32 z = true ->
  exists s, leaf_string L (JNum (NInt z)) = LItem (JStr s) /\ leaf_integer L (JStr s) = LItem (JNum (NInt z)).
Proof.
  intros Hz. eexists. split; [reflexivity|]. cbn.
  rewrite (nl_parse_format_int32 L NL z Hz), Hz. reflexivity.
Qed.

(* .string().double() / .string().number() give the float back (finite, valid float64) *)
Theorem C16_string_double_roundtrip f :
  valid_binary 53 1024 f = true -> f_finite f = true ->
  exists s, leaf_string L (JNum (NFlt f)) = LItem (JStr s) /\
            leaf_double L (JStr s) = LItem (JNum (NFlt f)) /\
            leaf_number L None (JStr s) = LItem (JNum (NFlt f)).
Proof.
  intros Hv Hf. eexists. split; [reflexivity|]. cbn.
  rewrite (nl_parse_format_float L NL f Hv Hf).
  assert (nan_or_inf f = false) as ->.
  { unfold f_finite in Hf. unfold nan_or_inf. destruct f; cbn in *; try discriminate Hf; reflexivity. }
  split; reflexivity.
Qed.

End RoundTrip.

(* these need no law *)
Theorem C16_string_boolean_roundtrip L b :
  exists s, leaf_string L (JBool b) = LItem (JStr s) /\ leaf_boolean L (JStr s) = LItem (JBool b).
Proof. destruct b; eexists; split; reflexivity. Qed.

Theorem C16_string_string_roundtrip L t : leaf_string L (JStr t) = LItem (JStr t).
Proof. reflexivity. Qed.

(* a json.Number converts through its own text: every numeric method gives the
   same answer on the number and on its .string() *)
Theorem C16_string_jsnumber_roundtrip L t :
  leaf_string L (JNum (NJs t)) = LItem (JStr t) /\
  leaf_double L (JStr t) = leaf_double L (JNum (NJs t)) /\
  leaf_number L None (JStr t) = leaf_number L None (JNum (NJs t)).
Proof. repeat split. Qed.

(* ---- datetime methods: only strings; the error kinds ---- *)
Theorem C16_datetime_rejects L useTZ op tmpl prec v :
  (forall s, v <> JStr s) ->
  leaf_datetime L useTZ op tmpl prec v =
  LErr (EVerbose "jsonpath item datetime method can only be applied to a string").
Proof. destruct v; intros H; try reflexivity. exfalso. apply (H s). reflexivity. Qed.

Theorem C16_datetime_result L useTZ op tmpl prec v r :
  leaf_datetime L useTZ op tmpl prec v = LItem r -> exists d, r = JDt d.
Proof.
  unfold leaf_datetime. intros H. split_matches H; try discriminate H; injection H as <-; eauto.
Qed.

Print Assumptions C16_type_names.
Print Assumptions C16_size_non_array.
Print Assumptions C16_double_rejects.
Print Assumptions C16_double_errors_verbose.
Print Assumptions C16_double_result.
Print Assumptions C16_double_table.
Print Assumptions C16_number_errors_verbose.
Print Assumptions C16_number_result.
Print Assumptions C16_decimal_noargs.
Print Assumptions C16_integer_errors_verbose.
Print Assumptions C16_integer_range.
Print Assumptions C16_integer_table.
Print Assumptions C16_bigint_errors_verbose.
Print Assumptions C16_bigint_range.
Print Assumptions C16_bigint_table.
Print Assumptions C16_string_rejects.
Print Assumptions C16_string_table.
Print Assumptions C16_boolean_errors_verbose.
Print Assumptions C16_boolean_result.
Print Assumptions C16_boolean_table.
Print Assumptions execBooleanString_spec.
Print Assumptions C16_boolean_string_accepts.
Print Assumptions C16_decimal_precision_range.
Print Assumptions C16_decimal_scale_range.
Print Assumptions C16_decimal_valid_args.
Print Assumptions C16_decimal_errors.
Print Assumptions C16_decimal_digit_count.
Print Assumptions C16_decimal_leaf_errors.
Print Assumptions C16_decimal_digits_excl.
Print Assumptions C16_refuted_decimal_zeros.
Print Assumptions C16_refuted_decimal_nan.
Print Assumptions C16_numeric_errors_verbose.
Print Assumptions C16_numeric_table.
Print Assumptions C16_abs_int.
Print Assumptions C16_string_bigint_roundtrip.
Print Assumptions C16_string_integer_roundtrip.
Print Assumptions C16_string_double_roundtrip.
Print Assumptions C16_string_boolean_roundtrip.
Print Assumptions C16_string_jsnumber_roundtrip.
Print Assumptions C16_datetime_rejects.
Print Assumptions C16_datetime_result.
