(* ComposeProofs.v — C09: paths compose.

   "For any prefix path P and any root-independent step sequence S,
    Query(P S, doc) equals the concatenation, over the items x of Query(P, doc)
    in order, of Query($ S, x), failing where the first of those fails; and a
    path that starts from a variable or a literal returns what the same steps
    return from $ when the document is that value.  Evaluating a step never
    disturbs its context: after a nested filter @ again denotes the outer item,
    after a nested subscript last again denotes the outer array, and $ always
    denotes the whole document."

   1. [sem_step_param]: a step uses its continuation only in tail position:
      sem_step s k = bind (sem_step s identity) (k size' ig').
   2. [chain_app]: sem_chain (P ++ S) = sem_chain_k P (sem_chain S).
   3. [indep_sound]: a chain that does not mention $ / free @ / free last
      evaluates the same whatever $ / @ / last are.
   4. [C09_compose], [C09_variable_start], [C09_literal_start].

   The "context intact" clauses hold by construction in this semantics: the
   current item and the innermost array size are PARAMETERS of [sem_chain], not
   state, so there is nothing to restore ([after_filter], [after_subscript] just
   display this); their content for the CODE is the Frame lemma of the
   refinement proof.
   Stdlib only, no axioms. *)
From Coq Require Import Floats.SpecFloat.
From SJ Require Import lib.Base model.Json model.Ast model.ExecLib model.Leaf spec.Sem
     proofs.SemBasics proofs.DescendProofs.

Definition tone_k : Z -> bool -> json -> trace := fun _ _ x => tone x.

(* ------------------------------------------------------------------ *)
(* 1. continuations are used in tail position only *)

Lemma structural_bind ig w k : tbind_trace (structural ig w) k = structural ig w.
Proof. destruct ig; reflexivity. Qed.

Lemma unwrap_bind (f : (json -> trace) -> json -> trace) u v k :
  (forall x, f k x = tbind_trace (f tone x) k) ->
  unwrap_over u v (f k) = tbind_trace (unwrap_over u v (f tone)) k.
Proof.
  intros H. rewrite !unwrap_over_bind, tbind_trace_tbind. apply tbind_ext_all. exact H.
Qed.

Lemma key_one_bind key ig k x : key_one key ig k x = tbind_trace (key_one key ig tone x) k.
Proof.
  destruct x; cbn [key_one]; rewrite ?structural_bind; try reflexivity.
  destruct (lookup key l); [now rewrite tbind_trace_tone | now rewrite structural_bind].
Qed.

Lemma anykey_one_bind ig k x : anykey_one ig k x = tbind_trace (anykey_one ig tone x) k.
Proof.
  destruct x; cbn [anykey_one]; rewrite ?structural_bind; try reflexivity.
  now rewrite tbind_tone, tbind_trace_ok.
Qed.

Lemma leaf_k_bind lf k x : leaf_k lf k x = tbind_trace (leaf_k lf tone x) k.
Proof. unfold leaf_k. destruct (lf x); [now rewrite tbind_trace_tone | reflexivity]. Qed.

Lemma pred_item_bind p k : pred_item p k = tbind_trace (pred_item p tone) k.
Proof. destruct p as [q [e|]]; cbn [pred_item]; [reflexivity | now rewrite tbind_trace_tone]. Qed.

Section Param.
Variable L : ExecLib.
Variable C : cenv.
Variable Q : quirks.
Notation sem_step := (sem_step L C Q).
Notation sem_pred := (sem_pred L C Q).
Notation sem_chain := (sem_chain L C Q).
Notation laxm := (laxm C).

Lemma filter_one_bind a l ig k x :
  filter_one L C Q a l ig k x = tbind_trace (filter_one L C Q a l ig tone x) k.
Proof.
  unfold filter_one. destruct (pred_chain L C Q a x l ig x) as [[] [e|]]; try reflexivity.
  now rewrite tbind_trace_tone.
Qed.

Lemma sign_one_bind minus k x : sign_one L minus k x = tbind_trace (sign_one L minus tone x) k.
Proof.
  destruct x as [| |[z|f|s]| | | |]; cbn [sign_one]; try reflexivity; try (now rewrite tbind_trace_tone).
  destruct (castJSONNumber _ _ _ _); [now rewrite tbind_trace_tone | reflexivity].
Qed.

Lemma keyvalue_one_bind k x : keyvalue_one k x = tbind_trace (keyvalue_one tone x) k.
Proof.
  destruct x; cbn [keyvalue_one]; try reflexivity. now rewrite tbind_tone, tbind_trace_ok.
Qed.

Lemma sign_step_bind minus a k cur l ig v :
  sign_step L C Q minus a k cur l ig v = tbind_trace (sign_step L C Q minus a tone cur l ig v) k.
Proof.
  unfold sign_step. cbv zeta. destruct (snd (sem_chain a cur l ig laxm v)); [reflexivity|].
  rewrite tbind_trace_tbind. apply tbind_ext_all. intros x. apply sign_one_bind.
Qed.

Lemma arith_step_bind op lc rc k cur l ig v :
  arith_step L C Q op lc rc k cur l ig v = tbind_trace (arith_step L C Q op lc rc tone cur l ig v) k.
Proof.
  unfold arith_step. cbv zeta. destruct (snd (sem_chain lc cur l ig laxm v)); [reflexivity|].
  destruct (if laxm then _ else _) as [|lv [|]]; try reflexivity.
  destruct (snd (sem_chain rc cur l ig laxm v)); [reflexivity|].
  destruct (if laxm then _ else _) as [|rv [|]]; try reflexivity.
  destruct (execMathOp L lv rv op); [now rewrite tbind_trace_tone | reflexivity].
Qed.

Lemma index_go_bind es k cur ig v subs :
  index_go L C Q es k cur ig v subs = tbind_trace (index_go L C Q es tone cur ig v subs) k.
Proof.
  induction subs as [|[a b] r IH]; [reflexivity|].
  cbn [index_go]. destruct (index_of L _) as [from|e]; [|reflexivity].
  destruct (match b with Some _ => _ | None => _ end) as [to|e]; [|reflexivity].
  destruct (negb ig && _); [reflexivity|].
  now rewrite tbind_trace_tapp, IH, tbind_tone, tbind_trace_ok.
Qed.

(* what the continuation of a step sees as innermost array size / ignore flag *)
Definition step_lsz (s : step) (l : Z) (v : json) : Z :=
  match s with
  | SIndex _ => match index_target C v with Some es => Z.of_nat (List.length es) | None => l end
  | _ => l
  end.
Definition step_ig (s : step) (ig : bool) : bool :=
  match s with SAny _ _ => true | _ => ig end.

Theorem sem_step_param s k cur l ig u v :
  sem_step s k cur l ig u v =
  tbind_trace (sem_step s tone_k cur l ig u v) (k (step_lsz s l v) (step_ig s ig)).
Proof.
  destruct s as [c|x|z|f|x|key|op lc rc|op a|a pat flags|m|p sc|op tmpl prec|a b|subs];
    cbn [step_lsz step_ig].
  - destruct c.
    + now rewrite !sem_step_root, tbind_trace_tone.
    + now rewrite !sem_step_current, tbind_trace_tone.
    + rewrite !sem_step_last. destruct (l <? 0); [reflexivity | now rewrite tbind_trace_tone].
    + rewrite !sem_step_anyarray. destruct v; try (destruct laxm; [now rewrite tbind_trace_tone | now rewrite structural_bind]).
      unfold tone_k. now rewrite tbind_tone, tbind_trace_ok.
    + rewrite !sem_step_anykey. apply (unwrap_bind (anykey_one ig)). intros; apply anykey_one_bind.
    + now rewrite !sem_step_true, tbind_trace_tone.
    + now rewrite !sem_step_false, tbind_trace_tone.
    + now rewrite !sem_step_null, tbind_trace_tone.
  - now rewrite !sem_step_str, tbind_trace_tone.
  - now rewrite !sem_step_integer, tbind_trace_tone.
  - now rewrite !sem_step_numeric, tbind_trace_tone.
  - rewrite !sem_step_var. destruct (lookup x (c_vars C)); [now rewrite tbind_trace_tone | reflexivity].
  - rewrite !sem_step_key. apply (unwrap_bind (key_one key ig)). intros; apply key_one_bind.
  - destruct (is_bool_binop op) eqn:E.
    + rewrite !sem_step_boolbin by exact E. apply pred_item_bind.
    + rewrite !sem_step_arith by exact E. apply arith_step_bind.
  - destruct op.
    + rewrite !sem_step_pred_un by exact I. apply pred_item_bind.
    + rewrite !sem_step_pred_un by exact I. apply pred_item_bind.
    + rewrite !sem_step_pred_un by exact I. apply pred_item_bind.
    + rewrite !sem_step_plus. apply sign_step_bind.
    + rewrite !sem_step_minus. apply sign_step_bind.
    + rewrite !sem_step_filter. apply (unwrap_bind (filter_one L C Q a l ig)). intros; apply filter_one_bind.
  - rewrite !sem_step_regex. apply pred_item_bind.
  - rewrite !sem_step_meth. destruct (method_leaf L laxm ig m) as [[unwraps lf]|].
    + destruct unwraps; [apply (unwrap_bind (leaf_k lf)); intros; apply leaf_k_bind | apply leaf_k_bind].
    + apply (unwrap_bind keyvalue_one). intros; apply keyvalue_one_bind.
  - rewrite !sem_step_decimal. apply (unwrap_bind (leaf_k _)). intros; apply leaf_k_bind.
  - rewrite !sem_step_dt. apply (unwrap_bind (leaf_k _)). intros; apply leaf_k_bind.
  - rewrite !(any_bind_gen L C Q). unfold tone_k. now rewrite tbind_tone, tbind_trace_ok.
  - rewrite !sem_step_index. destruct (index_target C v) as [es|]; [|reflexivity]. apply index_go_bind.
Qed.

(* steps respect pointwise-equal continuations (no functional extensionality needed) *)
Corollary sem_step_ext s k k' cur l ig u v :
  (forall l' ig' x, k l' ig' x = k' l' ig' x) ->
  sem_step s k cur l ig u v = sem_step s k' cur l ig u v.
Proof.
  intros H. rewrite (sem_step_param s k), (sem_step_param s k'). apply tbind_trace_ext. intros; apply H.
Qed.

(* ------------------------------------------------------------------ *)
(* 2. chains with an explicit final continuation *)

Fixpoint sem_chain_k (n : chain) (kf : Z -> bool -> json -> trace)
         (cur : json) (l : Z) (ig u : bool) (v : json) {struct n} : trace :=
  match n with
  | [] => kf l ig v
  | s :: rest => sem_step s (fun l' ig' x => sem_chain_k rest kf cur l' ig' laxm x) cur l ig u v
  end.

Lemma sem_chain_k_ext n : forall kf kf' cur l ig u v,
  (forall l' ig' x, kf l' ig' x = kf' l' ig' x) ->
  sem_chain_k n kf cur l ig u v = sem_chain_k n kf' cur l ig u v.
Proof.
  induction n as [|s rest IH]; intros kf kf' cur l ig u v H; cbn [sem_chain_k]; [apply H|].
  apply sem_step_ext. intros. now apply IH.
Qed.

Lemma sem_chain_is_k n : forall cur l ig u v,
  sem_chain n cur l ig u v = sem_chain_k n tone_k cur l ig u v.
Proof.
  induction n as [|s rest IH]; intros; [reflexivity|].
  rewrite sem_chain_cons. cbn [sem_chain_k]. apply sem_step_ext. intros. apply IH.
Qed.

(* the cleanest form of composition *)
Theorem chain_app_cons s P S cur l ig u v :
  sem_chain ((s :: P) ++ S) cur l ig u v =
  sem_chain_k (s :: P) (fun l' ig' x => sem_chain S cur l' ig' laxm x) cur l ig u v.
Proof.
  revert s cur l ig u v. induction P as [|s' P IH]; intros s cur l ig u v.
  - reflexivity.
  - change ((s :: s' :: P) ++ S) with (s :: ((s' :: P) ++ S)).
    rewrite sem_chain_cons. cbn [sem_chain_k]. apply sem_step_ext. intros l' ig' x.
    rewrite IH. reflexivity.
Qed.

Theorem chain_app P S cur l ig v :
  sem_chain (P ++ S) cur l ig laxm v =
  sem_chain_k P (fun l' ig' x => sem_chain S cur l' ig' laxm x) cur l ig laxm v.
Proof. destruct P; [reflexivity | apply chain_app_cons]. Qed.

Fixpoint any_free (c : chain) : bool :=
  match c with [] => true | SAny _ _ :: _ => false | _ :: r => any_free r end.

Lemma step_ig_any_free s r ig : (ig = true \/ any_free (s :: r) = true) -> step_ig s ig = ig /\ (ig = true \/ any_free r = true).
Proof.
  intros [->|H].
  - split; [destruct s; reflexivity | now left].
  - destruct s; try (split; [reflexivity | now right]). discriminate H.
Qed.

(* the bind form: when the final continuation ignores the array size, and the
   ignore flag cannot change along P *)
Lemma chain_k_bind P : forall kf kf' cur l ig u v,
  (forall l' x, kf l' ig x = kf' x) ->
  (ig = true \/ any_free P = true) ->
  sem_chain_k P kf cur l ig u v = tbind_trace (sem_chain P cur l ig u v) kf'.
Proof.
  induction P as [|s rest IH]; intros kf kf' cur l ig u v Hk Hig.
  - cbn [sem_chain_k]. rewrite sem_chain_nil, tbind_trace_tone. apply Hk.
  - cbn [sem_chain_k]. rewrite sem_chain_cons.
    rewrite (sem_step_param s (fun l' ig' x => sem_chain_k rest kf cur l' ig' laxm x)).
    rewrite (sem_step_param s (fun l' ig' x => sem_chain rest cur l' ig' laxm x)).
    rewrite tbind_trace_assoc. apply tbind_trace_ext. intros x _.
    destruct (step_ig_any_free s rest ig Hig) as [-> Hig']. now apply IH.
Qed.

End Param.

(* ------------------------------------------------------------------ *)
(* 3. independence of $, @, last *)

(* [indep s fr fc fl]: s does not mention $ (if fr), does not mention @ outside
   its own filters (if fc), does not mention last outside its own subscripts (if fl) *)
Fixpoint indep (s : step) (fr fc fl : bool) {struct s} : bool :=
  let ch := fix ch (c : list step) (fc fl : bool) {struct c} : bool :=
    match c with [] => true | x :: r => indep x fr fc fl && ch r fc fl end in
  match s with
  | SConst CRoot => negb fr
  | SConst CCurrent => negb fc
  | SConst CLast => negb fl
  | SBin _ l r => ch l fc fl && ch r fc fl
  | SUn UFilter a => ch a false fl
  | SUn _ a => ch a fc fl
  | SRegex a _ _ => ch a fc fl
  | SIndex subs =>
      (fix go (l : list (list step * option (list step))) : bool :=
         match l with
         | [] => true
         | (a, b) :: r => ch a fc false && match b with Some c => ch c fc false | None => true end && go r
         end) subs
  | _ => true
  end.

Definition indep_chain (c : chain) (fr fc fl : bool) : bool :=
  (fix ch (c : list step) (fc fl : bool) {struct c} : bool :=
     match c with [] => true | x :: r => indep x fr fc fl && ch r fc fl end) c fc fl.

Lemma indep_chain_nil fr fc fl : indep_chain [] fr fc fl = true.
Proof. reflexivity. Qed.
Lemma indep_chain_cons x r fr fc fl :
  indep_chain (x :: r) fr fc fl = indep x fr fc fl && indep_chain r fr fc fl.
Proof. reflexivity. Qed.

Fixpoint indep_subs (l : list (chain * option chain)) (fr fc : bool) : bool :=
  match l with
  | [] => true
  | (a, b) :: r => indep_chain a fr fc false
                   && match b with Some c => indep_chain c fr fc false | None => true end
                   && indep_subs r fr fc
  end.

Lemma indep_bin op l r fr fc fl :
  indep (SBin op l r) fr fc fl = indep_chain l fr fc fl && indep_chain r fr fc fl.
Proof. reflexivity. Qed.
Lemma indep_filter a fr fc fl : indep (SUn UFilter a) fr fc fl = indep_chain a fr false fl.
Proof. reflexivity. Qed.
Lemma indep_un op a fr fc fl :
  op <> UFilter -> indep (SUn op a) fr fc fl = indep_chain a fr fc fl.
Proof. destruct op; intros H; try reflexivity. congruence. Qed.
Lemma indep_regex a p f fr fc fl : indep (SRegex a p f) fr fc fl = indep_chain a fr fc fl.
Proof. reflexivity. Qed.
Lemma indep_index subs fr fc fl : indep (SIndex subs) fr fc fl = indep_subs subs fr fc.
Proof.
  cbn [indep]. induction subs as [|[a b] r IH]; [reflexivity|]. cbn [indep_subs]. rewrite <- IH. reflexivity.
Qed.

(* the named classes of the property text *)
Definition root_free (c : chain) : bool := indep_chain c true false false.    (* no $ anywhere *)
Definition cur_free (c : chain) : bool := indep_chain c false true false.     (* no @ outside its own filters *)
Definition last_closed (c : chain) : bool := indep_chain c false false true.  (* every last sits inside a subscript of c *)
Definition closed_chain (c : chain) : bool := indep_chain c true true true.

Lemma indep_weaken_step s : forall fr fc fl fr' fc' fl',
  (fr' = true -> fr = true) -> (fc' = true -> fc = true) -> (fl' = true -> fl = true) ->
  indep s fr fc fl = true -> indep s fr' fc' fl' = true.
Proof.
  induction s as [| s c IHs IHc | k | | | | | | op lc rc IHl IHr | op a IHa | a p f IHa | | | | | subs Hsubs]
    using step_ind' with
    (Q := fun c => forall fr fc fl fr' fc' fl',
            (fr' = true -> fr = true) -> (fc' = true -> fc = true) -> (fl' = true -> fl = true) ->
            indep_chain c fr fc fl = true -> indep_chain c fr' fc' fl' = true);
    intros fr fc fl fr' fc' fl' Hr Hc Hl Hi; try reflexivity.
  - rewrite indep_chain_cons in *. apply andb_true_iff in Hi. destruct Hi as [H1 H2].
    apply andb_true_iff. split; [eapply IHs | eapply IHc]; eauto.
  - destruct k; try reflexivity; cbn [indep] in *.
    + destruct fr'; [rewrite Hr in Hi by reflexivity; discriminate | reflexivity].
    + destruct fc'; [rewrite Hc in Hi by reflexivity; discriminate | reflexivity].
    + destruct fl'; [rewrite Hl in Hi by reflexivity; discriminate | reflexivity].
  - rewrite indep_bin in *. apply andb_true_iff in Hi. destruct Hi as [H1 H2].
    apply andb_true_iff. split; [eapply IHl | eapply IHr]; eauto.
  - destruct op; try (rewrite indep_un in * by discriminate; eapply IHa; eauto).
    rewrite indep_filter in *. eapply IHa; [| | |exact Hi]; auto.
  - rewrite indep_regex in *. eapply IHa; eauto.
  - rewrite indep_index in *. revert Hi. induction Hsubs as [|[a b] r [Ha Hb] _ IHr]; [reflexivity|].
    cbn [indep_subs fst snd] in *. rewrite !andb_true_iff. intros [[H1 H2] H3]. repeat split.
    + eapply Ha; [| | |exact H1]; auto.
    + destruct b; [|reflexivity]. eapply Hb; [| | |exact H2]; auto.
    + now apply IHr.
Qed.

Lemma closed_chain_classes c :
  closed_chain c = true -> root_free c = true /\ cur_free c = true /\ last_closed c = true.
Proof.
  intros H.
  assert (W : forall fr' fc' fl', indep_chain c fr' fc' fl' = true).
  { induction c as [|s r IH]; intros; [reflexivity|]. unfold closed_chain in *. rewrite indep_chain_cons in *.
    apply andb_true_iff in H. destruct H as [H1 H2]. apply andb_true_iff. split.
    - eapply indep_weaken_step; [| | |exact H1]; auto.
    - now apply IH. }
  repeat split; apply W.
Qed.

Definition set_root (C : cenv) (r : json) : cenv := mkcenv (c_lax C) r (c_vars C) (c_useTZ C).

Section Indep.
Variable L : ExecLib.
Variable C : cenv.
Variable Q : quirks.
Variable r' : json.
Let C' := set_root C r'.

Lemma pred_chain_cons s c cur l ig v E :
  pred_chain L E Q (s :: c) cur l ig v =
  match c with [] => sem_pred L E Q s cur l ig v | _ => (PUnknown, Some (EInvalid "boolean jsonpath item")) end.
Proof. reflexivity. Qed.

Definition Pst (s : step) : Prop := forall fr fc fl cur cur' l l' ig u v,
  indep s fr fc fl = true ->
  (fr = false -> c_root C = r') -> (fc = false -> cur = cur') -> (fl = false -> l = l') ->
  sem_step L C Q s tone_k cur l ig u v = sem_step L C' Q s tone_k cur' l' ig u v /\
  sem_pred L C Q s cur l ig v = sem_pred L C' Q s cur' l' ig v.

Definition Qch (c : chain) : Prop := forall fr fc fl cur cur' l l' ig u v,
  indep_chain c fr fc fl = true ->
  (fr = false -> c_root C = r') -> (fc = false -> cur = cur') -> (fl = false -> l = l') ->
  sem_chain L C Q c cur l ig u v = sem_chain L C' Q c cur' l' ig u v /\
  pred_chain L C Q c cur l ig v = pred_chain L C' Q c cur' l' ig v.

Lemma negb_true_false b : negb b = true -> b = false.
Proof. destruct b; [discriminate | reflexivity]. Qed.

Lemma Q_nil : Qch [].
Proof. intros fr fc fl cur cur' l l' ig u v _ _ _ _. split; reflexivity. Qed.

Lemma Q_cons s c : Pst s -> Qch c -> Qch (s :: c).
Proof.
  intros Hs Hc fr fc fl cur cur' l l' ig u v H Hr Hcu Hl.
  rewrite indep_chain_cons in H. apply andb_true_iff in H. destruct H as [H1 H2].
  destruct (Hs fr fc fl cur cur' l l' ig u v H1 Hr Hcu Hl) as [E1 E2]. split.
  - rewrite !sem_chain_cons.
    rewrite (sem_step_param L C Q s), (sem_step_param L C' Q s), E1.
    apply tbind_trace_ext. intros x _.
    change (laxm C') with (laxm C).
    apply (Hc fr fc fl); try assumption.
    intros Hfl. specialize (Hl Hfl). subst l'. reflexivity.
  - rewrite !pred_chain_cons. destruct c; [exact E2 | reflexivity].
Qed.

(* pieces shared by several cases *)
Lemma operand_eq c un fr fc fl cur cur' l l' ig v :
  Qch c -> indep_chain c fr fc fl = true ->
  (fr = false -> c_root C = r') -> (fc = false -> cur = cur') -> (fl = false -> l = l') ->
  operand L C Q c un cur l ig v = operand L C' Q c un cur' l' ig v.
Proof.
  intros Hc H Hr Hcu Hl. unfold operand. cbv zeta. change (laxm C') with (laxm C).
  now rewrite (proj1 (Hc fr fc fl cur cur' l l' ig (laxm C) v H Hr Hcu Hl)).
Qed.

Lemma predicate_eq lc rc ur cb fr fc fl cur cur' l l' ig v :
  Qch lc -> match rc with Some c => Qch c | None => True end ->
  indep_chain lc fr fc fl = true ->
  match rc with Some c => indep_chain c fr fc fl = true | None => True end ->
  (fr = false -> c_root C = r') -> (fc = false -> cur = cur') -> (fl = false -> l = l') ->
  predicate L C Q lc rc ur cb cur l ig v = predicate L C' Q lc rc ur cb cur' l' ig v.
Proof.
  intros Hlc Hrc H1 H2 Hr Hcu Hl. unfold predicate.
  rewrite (operand_eq lc true fr fc fl cur cur' l l' ig v Hlc H1 Hr Hcu Hl).
  destruct rc as [c|]; [|reflexivity].
  now rewrite (operand_eq c ur fr fc fl cur cur' l l' ig v Hrc H2 Hr Hcu Hl).
Qed.

Lemma sem_pred_other_eq s cur cur' l l' ig v :
  match s with SBin _ _ _ | SUn UExists _ | SUn UNot _ | SUn UIsUnknown _ | SRegex _ _ _ => False | _ => True end ->
  sem_pred L C Q s cur l ig v = sem_pred L C' Q s cur' l' ig v.
Proof. intros H. now rewrite !sem_pred_other. Qed.

Lemma P_bin op lc rc : Qch lc -> Qch rc -> Pst (SBin op lc rc).
Proof.
  intros Hlc Hrc fr fc fl cur cur' l l' ig u v H Hr Hcu Hl.
  rewrite indep_bin in H. apply andb_true_iff in H. destruct H as [H1 H2].
  assert (Epred : sem_pred L C Q (SBin op lc rc) cur l ig v = sem_pred L C' Q (SBin op lc rc) cur' l' ig v).
  { destruct (is_cmp op) eqn:Ecmp.
    - rewrite !sem_pred_cmp by exact Ecmp.
      change (cmp_cb L C' op) with (cmp_cb L C op).
      now apply (predicate_eq lc (Some rc) true (cmp_cb L C op) fr fc fl).
    - destruct op; try discriminate Ecmp.
      + rewrite !sem_pred_and.
        rewrite (proj2 (Hlc fr fc fl cur cur' l l' ig u v H1 Hr Hcu Hl)).
        now rewrite (proj2 (Hrc fr fc fl cur cur' l l' ig u v H2 Hr Hcu Hl)).
      + rewrite !sem_pred_or.
        rewrite (proj2 (Hlc fr fc fl cur cur' l l' ig u v H1 Hr Hcu Hl)).
        now rewrite (proj2 (Hrc fr fc fl cur cur' l l' ig u v H2 Hr Hcu Hl)).
      + rewrite !sem_pred_starts.
        now apply (predicate_eq lc (Some rc) false executeStartsWith fr fc fl).
      + now rewrite !sem_pred_arith by reflexivity.
      + now rewrite !sem_pred_arith by reflexivity.
      + now rewrite !sem_pred_arith by reflexivity.
      + now rewrite !sem_pred_arith by reflexivity.
      + now rewrite !sem_pred_arith by reflexivity. }
  split; [|exact Epred].
  destruct (is_bool_binop op) eqn:E.
  - rewrite !sem_step_boolbin by exact E. now rewrite Epred.
  - rewrite !sem_step_arith by exact E. unfold arith_step. cbv zeta. change (laxm C') with (laxm C).
    rewrite (proj1 (Hlc fr fc fl cur cur' l l' ig (laxm C) v H1 Hr Hcu Hl)).
    now rewrite (proj1 (Hrc fr fc fl cur cur' l l' ig (laxm C) v H2 Hr Hcu Hl)).
Qed.

Lemma P_un op a : Qch a -> Pst (SUn op a).
Proof.
  intros Ha fr fc fl cur cur' l l' ig u v H Hr Hcu Hl.
  destruct op.
  - rewrite indep_un in H by discriminate.
    assert (E : sem_pred L C Q (SUn UExists a) cur l ig v = sem_pred L C' Q (SUn UExists a) cur' l' ig v).
    { rewrite !sem_pred_exists. cbv zeta. change (laxm C') with (laxm C).
      now rewrite (proj1 (Ha fr fc fl cur cur' l l' ig (laxm C) v H Hr Hcu Hl)). }
    split; [|exact E]. rewrite !sem_step_pred_un by exact I. now rewrite E.
  - rewrite indep_un in H by discriminate.
    assert (E : sem_pred L C Q (SUn UNot a) cur l ig v = sem_pred L C' Q (SUn UNot a) cur' l' ig v).
    { rewrite !sem_pred_not. now rewrite (proj2 (Ha fr fc fl cur cur' l l' ig u v H Hr Hcu Hl)). }
    split; [|exact E]. rewrite !sem_step_pred_un by exact I. now rewrite E.
  - rewrite indep_un in H by discriminate.
    assert (E : sem_pred L C Q (SUn UIsUnknown a) cur l ig v = sem_pred L C' Q (SUn UIsUnknown a) cur' l' ig v).
    { rewrite !sem_pred_isunknown. now rewrite (proj2 (Ha fr fc fl cur cur' l l' ig u v H Hr Hcu Hl)). }
    split; [|exact E]. rewrite !sem_step_pred_un by exact I. now rewrite E.
  - rewrite indep_un in H by discriminate. split; [|now apply sem_pred_other_eq].
    rewrite !sem_step_plus. unfold sign_step. cbv zeta. change (laxm C') with (laxm C).
    now rewrite (proj1 (Ha fr fc fl cur cur' l l' ig (laxm C) v H Hr Hcu Hl)).
  - rewrite indep_un in H by discriminate. split; [|now apply sem_pred_other_eq].
    rewrite !sem_step_minus. unfold sign_step. cbv zeta. change (laxm C') with (laxm C).
    now rewrite (proj1 (Ha fr fc fl cur cur' l l' ig (laxm C) v H Hr Hcu Hl)).
  - rewrite indep_filter in H. split; [|now apply sem_pred_other_eq].
    rewrite !sem_step_filter, !unwrap_over_bind. apply tbind_ext_all. intros x.
    unfold filter_one.
    now rewrite (proj2 (Ha fr false fl x x l l' ig u x H Hr (fun _ => eq_refl) Hl)).
Qed.

Lemma P_regex a pat flags : Qch a -> Pst (SRegex a pat flags).
Proof.
  intros Ha fr fc fl cur cur' l l' ig u v H Hr Hcu Hl. rewrite indep_regex in H.
  assert (E : sem_pred L C Q (SRegex a pat flags) cur l ig v = sem_pred L C' Q (SRegex a pat flags) cur' l' ig v).
  { rewrite !sem_pred_regex.
    now apply (predicate_eq a None false (fun x _ => executeLikeRegex L pat flags x) fr fc fl). }
  split; [|exact E]. rewrite !sem_step_regex. now rewrite E.
Qed.

Lemma P_index subs :
  Forall (fun ab => Qch (fst ab) /\ match snd ab with Some c => Qch c | None => True end) subs ->
  Pst (SIndex subs).
Proof.
  intros Hsubs fr fc fl cur cur' l l' ig u v H Hr Hcu Hl. rewrite indep_index in H.
  split; [|now apply sem_pred_other_eq].
  rewrite !sem_step_index. change (index_target C' v) with (index_target C v).
  destruct (index_target C v) as [es|]; [|reflexivity].
  unfold tone_k. revert H. induction Hsubs as [|[a b] r [Ha Hb] _ IH]; intros H; [reflexivity|].
  cbn [indep_subs fst snd] in *. apply andb_true_iff in H. destruct H as [H H3].
  apply andb_true_iff in H. destruct H as [H1 H2].
  cbn [index_go]. change (laxm C') with (laxm C).
  rewrite (proj1 (Ha fr fc false cur cur' _ _ ig (laxm C) v H1 Hr Hcu (fun _ => eq_refl))).
  destruct b as [bn|].
  - rewrite (proj1 (Hb fr fc false cur cur' _ _ ig (laxm C) v H2 Hr Hcu (fun _ => eq_refl))).
    destruct (index_of L (sem_chain L C' Q a _ _ _ _ _)) as [from|e]; [|reflexivity].
    destruct (index_of L (sem_chain L C' Q bn _ _ _ _ _)) as [to|e]; [|reflexivity].
    destruct (negb ig && _); [reflexivity|]. now rewrite (IH H3).
  - destruct (index_of L (sem_chain L C' Q a _ _ _ _ _)) as [from|e]; [|reflexivity].
    destruct (negb ig && _); [reflexivity|]. now rewrite (IH H3).
Qed.

Lemma P_simple s :
  match s with
  | SConst _ | SBin _ _ _ | SUn _ _ | SRegex _ _ _ | SIndex _ => False
  | _ => True
  end -> Pst s.
Proof.
  intros Hs fr fc fl cur cur' l l' ig u v _ _ _ _.
  split; [|apply sem_pred_other_eq; destruct s; try exact I; now elim Hs].
  destruct s; try (elim Hs; fail);
    rewrite ?sem_step_str, ?sem_step_integer, ?sem_step_numeric, ?sem_step_var, ?sem_step_key,
            ?sem_step_meth, ?sem_step_decimal, ?sem_step_dt, ?sem_step_any; reflexivity.
Qed.

Lemma P_const k : Pst (SConst k).
Proof.
  intros fr fc fl cur cur' l l' ig u v H Hr Hcu Hl.
  split; [|apply sem_pred_other_eq; exact I].
  destruct k; cbn [indep] in H.
  - rewrite !sem_step_root. unfold tone_k. cbn [c_root C' set_root]. now rewrite (Hr (negb_true_false _ H)).
  - rewrite !sem_step_current. now rewrite (Hcu (negb_true_false _ H)).
  - rewrite !sem_step_last. now rewrite (Hl (negb_true_false _ H)).
  - now rewrite !sem_step_anyarray.
  - now rewrite !sem_step_anykey.
  - now rewrite !sem_step_true.
  - now rewrite !sem_step_false.
  - now rewrite !sem_step_null.
Qed.

Theorem indep_step_sound s : Pst s.
Proof.
  induction s using step_ind' with (Q := Qch).
  - apply Q_nil.
  - now apply Q_cons.
  - apply P_const.
  - now apply P_simple.
  - now apply P_simple.
  - now apply P_simple.
  - now apply P_simple.
  - now apply P_simple.
  - now apply P_bin.
  - now apply P_un.
  - now apply P_regex.
  - now apply P_simple.
  - now apply P_simple.
  - now apply P_simple.
  - now apply P_simple.
  - now apply P_index.
Qed.

Theorem indep_chain_sound c : Qch c.
Proof. induction c as [|s r IH]; [apply Q_nil | apply Q_cons; [apply indep_step_sound | exact IH]]. Qed.

End Indep.

(* set_root with the same root changes nothing *)
Lemma set_root_same C : set_root C (c_root C) = C.
Proof. destruct C; reflexivity. Qed.

Section Compose.
Variable L : ExecLib.
Variable C : cenv.
Variable Q : quirks.

(* a chain free of @ and free last evaluates the same under any @ / last *)
Theorem context_independent S cur cur' l l' ig u v :
  cur_free S = true -> last_closed S = true ->
  sem_chain L C Q S cur l ig u v = sem_chain L C Q S cur' l' ig u v.
Proof.
  intros Hc Hl.
  (* first change @, then last *)
  pose proof (indep_chain_sound L C Q (c_root C) S false true false cur cur' l l ig u v Hc
                (fun _ => eq_refl) (fun H => ltac:(discriminate H)) (fun _ => eq_refl)) as [E1 _].
  pose proof (indep_chain_sound L C Q (c_root C) S false false true cur' cur' l l' ig u v Hl
                (fun _ => eq_refl) (fun _ => eq_refl) (fun H => ltac:(discriminate H))) as [E2 _].
  rewrite set_root_same in E1, E2. now rewrite E1, E2.
Qed.

(* last_closed chains do not depend on the innermost array size *)
Corollary last_closed_independent S cur l l' ig u v :
  last_closed S = true ->
  sem_chain L C Q S cur l ig u v = sem_chain L C Q S cur l' ig u v.
Proof.
  intros Hl.
  pose proof (indep_chain_sound L C Q (c_root C) S false false true cur cur l l' ig u v Hl
                (fun _ => eq_refl) (fun _ => eq_refl) (fun H => ltac:(discriminate H))) as [E _].
  now rewrite set_root_same in E.
Qed.

(* $-independence: a root_free chain evaluates the same whatever the document is *)
Theorem root_independent S r cur l ig u v :
  root_free S = true ->
  sem_chain L C Q S cur l ig u v = sem_chain L (set_root C r) Q S cur l ig u v.
Proof.
  intros Hr.
  exact (proj1 (indep_chain_sound L C Q r S true false false cur cur l l ig u v Hr
                  (fun H => ltac:(discriminate H)) (fun _ => eq_refl) (fun _ => eq_refl))).
Qed.

(* all three at once *)
Theorem fully_independent S r cur cur' l l' ig u v :
  root_free S = true -> cur_free S = true -> last_closed S = true ->
  sem_chain L C Q S cur l ig u v = sem_chain L (set_root C r) Q S cur' l' ig u v.
Proof.
  intros Hr Hc Hl. rewrite (context_independent S cur cur' l l' ig u v Hc Hl). now apply root_independent.
Qed.

(* C09, on chains: S's evaluation on an item does not depend on the outer @ / last *)
Theorem compose_bind P S cur cur' l l' ig u v :
  cur_free S = true -> last_closed S = true ->
  (P = [] -> u = laxm C) ->
  (ig = true \/ any_free P = true) ->
  sem_chain L C Q (P ++ S) cur l ig u v =
  tbind_trace (sem_chain L C Q P cur l ig u v) (fun x => sem_chain L C Q S cur' l' ig (laxm C) x).
Proof.
  intros Hc Hl Hu Hig.
  assert (E : sem_chain L C Q (P ++ S) cur l ig u v =
              sem_chain_k L C Q P (fun l0 ig0 x => sem_chain L C Q S cur l0 ig0 (laxm C) x) cur l ig u v).
  { destruct P as [|s P]; [rewrite (Hu eq_refl); reflexivity | apply chain_app_cons]. }
  rewrite E. apply chain_k_bind; [|exact Hig].
  intros l0 x. now apply context_independent.
Qed.

(* C09 as the property words it: Query(P S, doc) = concatenation over the items
   x of Query(P, doc) of Query($ S, x) *)
Theorem C09_compose P S :
  P <> [] ->
  root_free S = true -> cur_free S = true -> last_closed S = true ->
  (c_lax C = true \/ any_free P = true) ->
  sem_path L C Q (P ++ S) =
  tbind_trace (sem_path L C Q P) (fun x => sem_path L (set_root C x) Q (SConst CRoot :: S)).
Proof.
  intros HP Hr Hc Hl Hm. rewrite !sem_path_eq.
  rewrite (compose_bind P S (c_root C) (c_root C) (-1) (-1) (laxm C) (laxm C) (c_root C) Hc Hl).
  - apply tbind_trace_ext. intros x _. rewrite sem_path_eq, sem_chain_cons, sem_step_root.
    cbn [c_root set_root]. change (laxm (set_root C x)) with (laxm C).
    now apply fully_independent.
  - intros; congruence.
  - destruct Hm as [Hm|Hm]; [left; exact Hm | right; exact Hm].
Qed.

(* a path that starts from a variable *)
Theorem C09_variable_start x val S :
  lookup x (c_vars C) = Some val ->
  root_free S = true -> cur_free S = true -> last_closed S = true ->
  sem_path L C Q (SVar x :: S) = sem_path L (set_root C val) Q (SConst CRoot :: S).
Proof.
  intros Hx Hr Hc Hl. rewrite !sem_path_eq, !sem_chain_cons, sem_step_var, sem_step_root, Hx.
  cbn [c_root set_root]. change (laxm (set_root C val)) with (laxm C). now apply fully_independent.
Qed.

(* ... or from a literal *)
Definition literal_value (s : step) : option json :=
  match s with
  | SStr x => Some (JStr x)
  | SInteger z => Some (JNum (NInt z))
  | SNumeric f => Some (JNum (NFlt f))
  | SConst CNull => Some JNull
  | SConst CTrue => Some (JBool true)
  | SConst CFalse => Some (JBool false)
  | _ => None
  end.

Theorem C09_literal_start s val S :
  literal_value s = Some val ->
  root_free S = true -> cur_free S = true -> last_closed S = true ->
  sem_path L C Q (s :: S) = sem_path L (set_root C val) Q (SConst CRoot :: S).
Proof.
  intros Hs Hr Hc Hl. rewrite !sem_path_eq, !sem_chain_cons, sem_step_root.
  cbn [c_root set_root]. change (laxm (set_root C val)) with (laxm C).
  destruct s as [[]| | | | | | | | | | | | |]; try discriminate Hs; injection Hs as <-.
  - rewrite sem_step_true. now apply fully_independent.
  - rewrite sem_step_false. now apply fully_independent.
  - rewrite sem_step_null. now apply fully_independent.
  - rewrite sem_step_str. now apply fully_independent.
  - rewrite sem_step_integer. now apply fully_independent.
  - rewrite sem_step_numeric. now apply fully_independent.
Qed.

(* ---------- context intact: by construction ---------- *)

(* after a filter, the rest of the path sees the same @ and the same last as the filter step did *)
Theorem after_filter c rest cur l ig u v :
  sem_chain L C Q (SUn UFilter [c] :: rest) cur l ig u v =
  tbind_list (candidates u v)
    (fun x => match sem_pred L C Q c x l ig x with
              | (_, Some e) => tfail e
              | (PTrue, None) => sem_chain L C Q rest cur l ig (laxm C) x
              | (_, None) => tnil
              end).
Proof. rewrite sem_chain_cons, sem_step_filter, unwrap_over_bind. reflexivity. Qed.

(* a subscript evaluates its bounds with THIS array's size and the rest of the
   path with the same @; its own outer size l is not touched by the bounds *)
Theorem after_subscript subs rest cur l ig u v es :
  index_target C v = Some es ->
  sem_chain L C Q (SIndex subs :: rest) cur l ig u v =
  index_go L C Q es (fun x => sem_chain L C Q rest cur (Z.of_nat (List.length es)) ig (laxm C) x) cur ig v subs.
Proof. intros H. now rewrite sem_chain_cons, sem_step_index, H. Qed.

(* $ is the document at every depth of nesting: [c_root C] is a field of the
   environment no rule modifies; in particular under a filter and a subscript *)
Theorem root_is_document k cur l ig u v : sem_step L C Q (SConst CRoot) k cur l ig u v = k l ig (c_root C).
Proof. apply sem_step_root. Qed.

End Compose.

(* ------------------------------------------------------------------ *)
(* examples: hypotheses satisfiable; the side conditions are needed *)

Definition cL : ExecLib := DescendProofs.dummyL.
Definition n_ (z : Z) : json := JNum (NInt z).
Definition cdoc : json :=
  JObj 0 [("a", JArr 1 [JObj 2 [("b", n_ 1)]; JObj 3 [("b", n_ 2)]; n_ 7])]%string.
Definition cP : chain := [SConst CRoot; SKey "a"; SConst CAnyArray].
Definition cS : chain := [SKey "b"].

Example ex_classes : root_free cS = true /\ cur_free cS = true /\ last_closed cS = true /\ any_free cP = true.
Proof. repeat split. Qed.

(* strict: $.a[*].b returns 1, 2 and then fails on the number 7 — exactly the bind *)
Example ex_compose_strict :
  sem_path cL (mkcenv false cdoc [] false) quirks_ideal (cP ++ cS)
  = ([n_ 1; n_ 2], Some (EVerbose "jsonpath member accessor can only be applied to an object"))
  /\ sem_path cL (mkcenv false cdoc [] false) quirks_ideal cP
  = ([JObj 2 [("b", n_ 1)]; JObj 3 [("b", n_ 2)]; n_ 7]%string, None).
Proof. vm_compute. split; reflexivity. Qed.

(* S with a subscript using last and a filter using @: still closed *)
Definition cS2 : chain := [SIndex [([SConst CLast], None)]; SUn UFilter [SBin BGt [SConst CCurrent] [SInteger 0]]].
Example ex_classes2 : root_free cS2 = true /\ cur_free cS2 = true /\ last_closed cS2 = true.
Proof. repeat split. Qed.

(* the restriction on .** in strict mode is needed: after .** structural errors are ignored,
   so $.**.b never fails, while Query($.b, x) fails on the nodes x that are not objects *)
Example ex_any_excluded :
  sem_path cL (mkcenv false (n_ 7) [] false) quirks_ideal ([SConst CRoot; SAny 0 max_uint32] ++ cS) = ([], None)
  /\ sem_path cL (set_root (mkcenv false (n_ 7) [] false) (n_ 7)) quirks_ideal (SConst CRoot :: cS)
     = ([], Some (EVerbose "jsonpath member accessor can only be applied to an object")).
Proof. vm_compute. split; reflexivity. Qed.

(* root_free is needed: S = ? ($.a[2] == 7) is not root-independent *)
Definition cS3 : chain :=
  [SUn UFilter [SBin BEq [SConst CRoot; SKey "a"; SIndex [([SInteger 2], None)]] [SInteger 7]]].
Example ex_root_needed :
  sem_path cL (mkcenv false cdoc [] false) quirks_ideal ([SConst CRoot; SKey "a"] ++ cS3)
  <> tbind_trace (sem_path cL (mkcenv false cdoc [] false) quirks_ideal [SConst CRoot; SKey "a"])
       (fun x => sem_path cL (set_root (mkcenv false cdoc [] false) x) quirks_ideal (SConst CRoot :: cS3)).
Proof. vm_compute. discriminate. Qed.

(* a path starting at a variable *)
Example ex_variable :
  sem_path cL (mkcenv false JNull [("x", cdoc)]%string false) quirks_ideal (SVar "x" :: [SKey "a"; SIndex [([SInteger 2], None)]])
  = ([n_ 7], None)
  /\ sem_path cL (set_root (mkcenv false JNull [("x", cdoc)]%string false) cdoc) quirks_ideal
       (SConst CRoot :: [SKey "a"; SIndex [([SInteger 2], None)]])
  = ([n_ 7], None).
Proof. vm_compute. split; reflexivity. Qed.
