(* DateTime.v — package path/types (date.go, time.go, timetz.go, timestamp.go,
   timestamptz.go, parse_time.go, offset.go, types.go) and the datetime half
   of path/exec/datetime.go, over the time.Time model of GoTime.v.

   A stored *types.X is a `datetime` record (Json.v): kind, absolute instant
   (Unix seconds + nanoseconds) and the offset of its offset-only location.

   Stdlib only, no axioms; everything is computable and extractable. *)
From SJ Require Import lib.Base model.Json model.Civil model.GoTime.
Open Scope Z_scope.

Local Notation "a +++ b" := (String.append a b) (at level 60, right associativity).

(* ------------------------------------------------------------------ *)
(* Execution context                                                   *)
(* ------------------------------------------------------------------ *)

Record dctx := mkctx {
  tz : zone;              (* types.TZFromContext(ctx); default time.UTC = ZFixed 0 *)
  now_sec : Z;            (* time.Now(), Unix seconds *)
  now_local_off : Z       (* offset of time.Local at now *)
}.

(* the time.Time inside a stored value *)
Definition to_g (d : datetime) : gtime := mkg (dt_sec d) (dt_nsec d) (ZFixed (dt_off d)).

(* wrap a time.Time whose location is already offset-only / irrelevant *)
Definition of_g (k : dtkind) (t : gtime) : datetime := mkdt k (g_sec t) (g_nsec t) (g_off t).

(* offset.go.  offsetLocationFor(t): FixedZone("", off) when the zone has a
   name, otherwise t.Location() — which for a nameless zone is offset-only
   with that same offset.  Either way: the fixed zone of t's current offset. *)
Definition offset_location_for (t : gtime) : zone := ZFixed (g_off t).
Definition offset_only_time_for (t : gtime) : gtime := go_in t (ZFixed (g_off t)).

(* ------------------------------------------------------------------ *)
(* Constructors                                                        *)
(* ------------------------------------------------------------------ *)

Definition new_date (src : gtime) : datetime :=
  of_g KDate (go_date (g_year src) (g_month src) (g_day src) 0 0 0 0 (ZFixed 0)).

Definition new_time (src : gtime) : datetime :=
  of_g KTime (go_date 0 1 1 (g_hour src) (g_minute src) (g_second src) (g_nsec src) (ZFixed 0)).

Definition new_timetz (src : gtime) : datetime :=
  of_g KTimeTZ (go_date 0 1 1 (g_hour src) (g_minute src) (g_second src) (g_nsec src)
                        (offset_location_for src)).

Definition new_timestamp (src : gtime) : datetime :=
  of_g KTimestamp (go_date (g_year src) (g_month src) (g_day src)
                           (g_hour src) (g_minute src) (g_second src) (g_nsec src) (ZFixed 0)).

(* the ctx argument of NewTimestampTZ only fills the unused tz field *)
Definition new_timestamptz (src : gtime) : datetime :=
  of_g KTimestampTZ (go_date (g_year src) (g_month src) (g_day src)
                             (g_hour src) (g_minute src) (g_second src) (g_nsec src)
                             (offset_location_for src)).

(* ------------------------------------------------------------------ *)
(* String()                                                            *)
(* ------------------------------------------------------------------ *)

Definition out_layout (k : dtkind) : list litem :=
  match k with
  | KDate => lay_date                (* "2006-01-02" *)
  | KTime => lay_time                (* "15:04:05.999999999" *)
  | KTimeTZ => lay_timetz_out        (* "15:04:05.999999999-07:00" *)
  | KTimestamp => lay_ts ch_T        (* "2006-01-02T15:04:05.999999999" *)
  | KTimestampTZ => lay_tstz_out     (* "2006-01-02T15:04:05.999999999-07:00" *)
  end.

Definition dt_string (d : datetime) : string := go_format (out_layout (dt_kind d)) (to_g d).

(* ------------------------------------------------------------------ *)
(* ParseTime                                                           *)
(* ------------------------------------------------------------------ *)

(* adjustPrecision: precision > -1 => value.Round(time.Second / time.Duration(math.Pow10(precision))) *)
Definition adjust_precision (t : gtime) (precision : Z) : gtime :=
  if -1 <? precision then go_round t (prec_duration precision) else t.

Fixpoint first_parse (ls : list (list litem)) (src : string) : option gtime :=
  match ls with
  | [] => None
  | l :: r => match go_parse l src with Some t => Some t | None => first_parse r src end
  end.

Definition timetz_layouts : list (list litem) :=
  [lay_timetz TZShort; lay_timetz TZColon].            (* "15:04:05Z07", "15:04:05Z07:00" *)
Definition tstz_layouts : list (list litem) :=
  [lay_tstz ch_T TZShort; lay_tstz ch_space TZShort;   (* "2006-01-02T15:04:05Z07", "2006-01-02 15:04:05Z07" *)
   lay_tstz ch_T TZColon; lay_tstz ch_space TZColon].  (* "...T15:04:05Z07:00", "... 15:04:05Z07:00" *)
Definition ts_layouts : list (list litem) :=
  [lay_ts ch_T; lay_ts ch_space].                      (* "2006-01-02T15:04:05", "2006-01-02 15:04:05" *)

(* The cascade of parse_time.go: which layout family matches first, and the
   time.Time it yields (for time-with-zone already through offsetOnlyTimeFor).
   Independent of the precision and of the context. *)
Definition parse_raw (src : string) : option (dtkind * gtime) :=
  match go_parse lay_date src with
  | Some v => Some (KDate, v)
  | None =>
  match first_parse timetz_layouts src with
  | Some v => Some (KTimeTZ, offset_only_time_for v)
  | None =>
  match go_parse lay_time src with
  | Some v => Some (KTime, v)
  | None =>
  match first_parse tstz_layouts src with
  | Some v => Some (KTimestampTZ, v)
  | None =>
  match first_parse ts_layouts src with
  | Some v => Some (KTimestamp, v)
  | None => None
  end end end end end.

(* NewX(adjustPrecision(value, precision)); dates are not adjusted *)
Definition build_parsed (k : dtkind) (v : gtime) (precision : Z) : datetime :=
  match k with
  | KDate => new_date v
  | KTime => new_time (adjust_precision v precision)
  | KTimeTZ => new_timetz (adjust_precision v precision)
  | KTimestamp => new_timestamp (adjust_precision v precision)
  | KTimestampTZ => new_timestamptz (adjust_precision v precision)
  end.

Definition parse_time (ctx : dctx) (src : string) (precision : Z) : option datetime :=
  match parse_raw src with
  | Some (k, v) => Some (build_parsed k v precision)
  | None => None
  end.

(* exec.parseDateTime: the optional precision argument of .time() .time_tz()
   .timestamp() .timestamp_tz() (never for .datetime()/.date()). *)
Inductive parse_dt_result :=
| PDOk (d : datetime)
| PDBadPrecision          (* "time precision of jsonpath item method is invalid" *)
| PDNotRecognized.        (* "... format is not recognized" *)

Definition max_timestamp_precision : Z := 6.

Definition exec_parse_datetime (ctx : dctx) (takes_precision : bool) (src : string)
           (arg : option Z) : parse_dt_result :=
  let prec :=
    match arg with
    | Some p => if takes_precision then
                  (if p <? 0 then None
                   else Some (if max_timestamp_precision <? p then max_timestamp_precision else p))
                else Some (-1)
    | None => Some (-1)
    end in
  match prec with
  | None => PDBadPrecision
  | Some p => match parse_time ctx src p with
              | Some d => PDOk d
              | None => PDNotRecognized
              end
  end.

(* ------------------------------------------------------------------ *)
(* Casts (the ToX methods)                                             *)
(* ------------------------------------------------------------------ *)

(* t.In(TZFromContext(ctx)) *)
Definition in_ctx (ctx : dctx) (d : datetime) : gtime := go_in (to_g d) (tz ctx).

(* time.Date(t.Year(), t.Month(), t.Day(), t.Hour(), ..., TZFromContext(ctx)) *)
Definition wall_in_ctx (ctx : dctx) (d : datetime) : gtime :=
  let t := to_g d in
  go_date (g_year t) (g_month t) (g_day t) (g_hour t) (g_minute t) (g_second t) (g_nsec t) (tz ctx).

Definition dt_to_date (ctx : dctx) (d : datetime) : datetime :=
  match dt_kind d with
  | KDate => d
  | KTimestampTZ => new_date (in_ctx ctx d)
  | _ => new_date (to_g d)                      (* Timestamp.ToDate; others never called *)
  end.

Definition dt_to_time (ctx : dctx) (d : datetime) : datetime :=
  match dt_kind d with
  | KTime => d
  | KTimestampTZ => new_time (in_ctx ctx d)
  | _ => new_time (to_g d)                      (* TimeTZ.ToTime, Timestamp.ToTime *)
  end.

(* Time.ToTimeTZ: today's date (time.Now() in time.Local) + t's clock reading
   in the context zone. *)
Definition time_to_timetz (ctx : dctx) (d : datetime) : datetime :=
  let now := mkg (now_sec ctx) 0 (ZFixed (now_local_off ctx)) in
  let t := to_g d in
  new_timetz (go_date (g_year now) (g_month now) (g_day now)
                      (g_hour t) (g_minute t) (g_second t) (g_nsec t) (tz ctx)).

Definition dt_to_timetz (ctx : dctx) (d : datetime) : datetime :=
  match dt_kind d with
  | KTimeTZ => d
  | KTimestampTZ => new_timetz (in_ctx ctx d)
  | _ => time_to_timetz ctx d                   (* Time.ToTimeTZ; others never called *)
  end.

Definition dt_to_timestamp (ctx : dctx) (d : datetime) : datetime :=
  match dt_kind d with
  | KTimestamp => d
  | KTimestampTZ => new_timestamp (in_ctx ctx d)
  | _ => new_timestamp (to_g d)                 (* Date.ToTimestamp *)
  end.

Definition dt_to_timestamptz (ctx : dctx) (d : datetime) : datetime :=
  match dt_kind d with
  | KTimestampTZ => d
  | KDate =>
      let t := to_g d in
      new_timestamptz (go_date (g_year t) (g_month t) (g_day t) 0 0 0 0 (tz ctx))
  | _ => new_timestamptz (wall_in_ctx ctx d)    (* Timestamp.ToTimestampTZ *)
  end.

(* ------------------------------------------------------------------ *)
(* exec: castDate .. castTimestampTZ                                   *)
(* ------------------------------------------------------------------ *)

Inductive dttarget := TDate | TTime | TTimeTZ | TTimestamp | TTimestampTZ.

Inductive cast_result :=
| CastOk (d : datetime)
| CastNotRecognized
| CastTZRequired
| CastInvalid.

Definition exec_cast (target : dttarget) (useTZ : bool) (ctx : dctx) (d : datetime) : cast_result :=
  match target, dt_kind d with
  (* castDate *)
  | TDate, KDate => CastOk d
  | TDate, KTime | TDate, KTimeTZ => CastNotRecognized
  | TDate, KTimestamp => CastOk (dt_to_date ctx d)
  | TDate, KTimestampTZ => if useTZ then CastOk (dt_to_date ctx d) else CastTZRequired
  (* castTime *)
  | TTime, KDate => CastNotRecognized
  | TTime, KTime => CastOk d
  | TTime, KTimeTZ => if useTZ then CastOk (dt_to_time ctx d) else CastTZRequired
  | TTime, KTimestamp => CastOk (dt_to_time ctx d)
  | TTime, KTimestampTZ => if useTZ then CastOk (dt_to_time ctx d) else CastTZRequired
  (* castTimeTZ *)
  | TTimeTZ, KDate | TTimeTZ, KTimestamp => CastNotRecognized
  | TTimeTZ, KTime => if useTZ then CastOk (dt_to_timetz ctx d) else CastTZRequired
  | TTimeTZ, KTimeTZ => CastOk d
  | TTimeTZ, KTimestampTZ => CastOk (dt_to_timetz ctx d)
  (* castTimestamp *)
  | TTimestamp, KDate => CastOk (dt_to_timestamp ctx d)
  | TTimestamp, KTime | TTimestamp, KTimeTZ => CastNotRecognized
  | TTimestamp, KTimestamp => CastOk d
  | TTimestamp, KTimestampTZ => if useTZ then CastOk (dt_to_timestamp ctx d) else CastTZRequired
  (* castTimestampTZ *)
  | TTimestampTZ, KDate => if useTZ then CastOk (dt_to_timestamptz ctx d) else CastTZRequired
  | TTimestampTZ, KTime | TTimestampTZ, KTimeTZ => CastNotRecognized
  | TTimestampTZ, KTimestamp => if useTZ then CastOk (dt_to_timestamptz ctx d) else CastTZRequired
  | TTimestampTZ, KTimestampTZ => CastOk d
  end.
(* CastInvalid (ErrInvalid "type %T not supported") is unreachable: the five
   kinds exhaust the types.DateTime implementations. *)

(* executeDateTimeMethod on a string item: parseDateTime, then the cast for
   the method (target None = .datetime(), which keeps the parsed type).
   .datetime() and .date() take no precision. *)
Inductive dtm_result :=
| DtmOk (d : datetime)
| DtmNotRecognized
| DtmTZRequired
| DtmBadPrecision.

Definition exec_datetime_method (target : option dttarget) (prec : option Z) (useTZ : bool)
           (ctx : dctx) (src : string) : dtm_result :=
  let takes := match target with Some TDate | None => false | Some _ => true end in
  match exec_parse_datetime ctx takes src prec with
  | PDBadPrecision => DtmBadPrecision
  | PDNotRecognized => DtmNotRecognized
  | PDOk d =>
      match target with
      | None => DtmOk d
      | Some t =>
          match exec_cast t useTZ ctx d with
          | CastOk d' => DtmOk d'
          | CastTZRequired => DtmTZRequired
          | CastNotRecognized | CastInvalid => DtmNotRecognized
          end
      end
  end.

(* ------------------------------------------------------------------ *)
(* Compare                                                             *)
(* ------------------------------------------------------------------ *)

(* Date/Time/Timestamp/TimestampTZ.Compare(u) = t.Time.Compare(u) *)
Definition dt_compare (a b : datetime) : Z :=
  inst_compare (dt_sec a) (dt_nsec a) (dt_sec b) (dt_nsec b).

(* TimeTZ.Compare: instants first, then the LARGER offset sorts first *)
Definition timetz_compare (a b : datetime) : Z :=
  let c := dt_compare a b in
  if negb (c =? 0) then c
  else if dt_off b <? dt_off a then -1
  else if dt_off a <? dt_off b then 1
  else 0.

Inductive cmp_result :=
| CmpOk (c : Z)
| CmpIncomparable      (* -2 *)
| CmpTZRequired.

Definition compare_datetime (useTZ : bool) (ctx : dctx) (a b : datetime) : cmp_result :=
  match dt_kind a, dt_kind b with
  (* compareDate *)
  | KDate, KDate | KDate, KTimestamp => CmpOk (dt_compare a b)
  | KDate, KTimestampTZ =>
      if useTZ then CmpOk (dt_compare (dt_to_timestamptz ctx a) b) else CmpTZRequired
  | KDate, KTime | KDate, KTimeTZ => CmpIncomparable
  (* compareTime *)
  | KTime, KTime => CmpOk (dt_compare a b)
  | KTime, KTimeTZ =>
      if useTZ then CmpOk (- timetz_compare b (dt_to_timetz ctx a)) else CmpTZRequired
  | KTime, KDate | KTime, KTimestamp | KTime, KTimestampTZ => CmpIncomparable
  (* compareTimeTZ *)
  | KTimeTZ, KTime =>
      if useTZ then CmpOk (timetz_compare a (dt_to_timetz ctx b)) else CmpTZRequired
  | KTimeTZ, KTimeTZ => CmpOk (timetz_compare a b)
  | KTimeTZ, KDate | KTimeTZ, KTimestamp | KTimeTZ, KTimestampTZ => CmpIncomparable
  (* compareTimestamp *)
  | KTimestamp, KDate | KTimestamp, KTimestamp => CmpOk (dt_compare a b)
  | KTimestamp, KTimestampTZ =>
      if useTZ then CmpOk (dt_compare (dt_to_timestamptz ctx a) b) else CmpTZRequired
  | KTimestamp, KTime | KTimestamp, KTimeTZ => CmpIncomparable
  (* compareTimestampTZ *)
  | KTimestampTZ, KDate | KTimestampTZ, KTimestamp =>
      if useTZ then CmpOk (dt_compare a (dt_to_timestamptz ctx b)) else CmpTZRequired
  | KTimestampTZ, KTimestampTZ => CmpOk (dt_compare a b)
  | KTimestampTZ, KTime | KTimestampTZ, KTimeTZ => CmpIncomparable
  end.

(* ------------------------------------------------------------------ *)
(* JSON                                                                *)
(* ------------------------------------------------------------------ *)

Definition ch_quote : ascii := ascii_of_Z 34.

Definition dt_marshal_json (d : datetime) : string :=
  String ch_quote (dt_string d +++ String ch_quote EmptyString).

(* Go byte-slice primitives with their run-time checks. *)
Definition go_len (s : string) : Z := Z.of_nat (String.length s).

Definition go_index (s : string) (i : Z) : outcome ascii :=
  if (i <? 0) || (go_len s <=? i) then Panic "index out of range"
  else match String.get (Z.to_nat i) s with
       | Some c => Ret c
       | None => Panic "index out of range"
       end.

Definition go_slice (s : string) (lo hi : Z) : outcome string :=
  if (lo <? 0) || (hi <? lo) || (go_len s <? hi) then Panic "slice bounds out of range"
  else Ret (String.substring (Z.to_nat lo) (Z.to_nat (hi - lo)) s).

(* types.go unquote:
     if len(data) >= 2 && data[0] == '"' && data[len(data)-1] == '"' { return string(data[1 : len(data)-1]) }
     return string(data) *)
Definition unquote (data : string) : outcome string :=
  if 2 <=? go_len data then
    do c0 <- go_index data 0;
    if Ascii.eqb c0 ch_quote then
      do cl <- go_index data (go_len data - 1);
      if Ascii.eqb cl ch_quote then go_slice data 1 (go_len data - 1) else Ret data
    else Ret data
  else Ret data.

(* size >= place && (str[size-place] == '-' || str[size-place] == '+') *)
Definition sign_at (str : string) (place : Z) : outcome bool :=
  let size := go_len str in
  if place <=? size then
    do c <- go_index str (size - place);
    if Ascii.eqb c ch_dash then Ret true
    else do c' <- go_index str (size - place); Ret (Ascii.eqb c' ch_plus)
  else Ret false.

(* the switch in TimeTZ.UnmarshalJSON / TimestampTZ.UnmarshalJSON *)
Definition tz_format_for (str : string) : outcome tzform :=
  do b9 <- sign_at str 9;
  if b9 then Ret TZColonSec
  else do b6 <- sign_at str 6;
       if b6 then Ret TZColon else Ret TZShort.

Definition omap {A B} (f : A -> B) (x : option A) : option B :=
  match x with Some a => Some (f a) | None => None end.

Definition dt_unmarshal_json (k : dtkind) (data : string) : outcome (option datetime) :=
  do str <- unquote data;
  match k with
  | KDate => Ret (omap new_date (go_parse lay_date str))
  | KTime => Ret (omap new_time (go_parse lay_time str))
  | KTimestamp => Ret (omap new_timestamp (go_parse (lay_ts ch_T) str))
  | KTimeTZ =>
      do f <- tz_format_for str;
      (* *t = TimeTZ{Time: tim}: the parsed time.Time is stored as is *)
      Ret (omap (of_g KTimeTZ) (go_parse (lay_timetz f) str))
  | KTimestampTZ =>
      do f <- tz_format_for str;
      Ret (omap (of_g KTimestampTZ) (go_parse (lay_tstz ch_T f) str))
  end.

(* ------------------------------------------------------------------ *)
(* Well-formedness                                                     *)
(* ------------------------------------------------------------------ *)

Definition wf_nsec (d : datetime) : Prop := 0 <= dt_nsec d < 1000000000.

(* the invariants the NewX constructors establish *)
Definition day0 : Z := days_from_civil 0 1 1.     (* -719528 *)

Definition wf_dt (d : datetime) : Prop :=
  wf_nsec d /\
  match dt_kind d with
  | KDate => dt_off d = 0 /\ dt_sec d mod 86400 = 0 /\ dt_nsec d = 0
  | KTime => dt_off d = 0 /\ day0 * 86400 <= dt_sec d < (day0 + 1) * 86400
  | KTimeTZ => day0 * 86400 <= dt_sec d + dt_off d < (day0 + 1) * 86400
  | KTimestamp => dt_off d = 0
  | KTimestampTZ => True
  end.
