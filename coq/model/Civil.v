(* Civil.v — proleptic Gregorian calendar on Z (floor division everywhere).

   days_from_civil y m d : days since 1970-01-01 of the civil date y-m-d
   civil_from_days z     : the civil date of day number z

   Both are total; days_from_civil is linear in d (so it also gives Go's
   time.Date overflow normalisation of the day field for free).  The inverse
   theorems hold for ALL years: two symbolic 400-year era-shift lemmas plus a
   kernel-evaluated sweep of one era (146,097 days / 400*12*31 dates).

   Stdlib only, no axioms. *)
From Coq Require Import ZArith Lia Bool List ZifyBool.
Import ListNotations.
Open Scope Z_scope.

Ltac Zify.zify_post_hook ::= Z.div_mod_to_equations.

Definition days_from_civil (y m d : Z) : Z :=
  let y' := if m <=? 2 then y - 1 else y in
  let era := y' / 400 in
  let yoe := y' - era * 400 in
  let mp := (m + 9) mod 12 in
  let doy := (153 * mp + 2) / 5 + d - 1 in
  let doe := yoe * 365 + yoe / 4 - yoe / 100 + doy in
  era * 146097 + doe - 719468.

Definition civil_from_days (z : Z) : Z * Z * Z :=
  let z := z + 719468 in
  let era := z / 146097 in
  let doe := z - era * 146097 in
  let yoe := (doe - doe / 1460 + doe / 36524 - doe / 146096) / 365 in
  let y := yoe + era * 400 in
  let doy := doe - (365 * yoe + yoe / 4 - yoe / 100) in
  let mp := (5 * doy + 2) / 153 in
  let d := doy - (153 * mp + 2) / 5 + 1 in
  let m := if mp <? 10 then mp + 3 else mp - 9 in
  (if m <=? 2 then y + 1 else y, m, d).

Definition is_leap (y : Z) : bool :=
  (y mod 4 =? 0) && (negb (y mod 100 =? 0) || (y mod 400 =? 0)).

(* Go: daysIn(m, year) *)
Definition days_in_month (y m : Z) : Z :=
  if m =? 2 then (if is_leap y then 29 else 28)
  else if (m =? 4) || (m =? 6) || (m =? 9) || (m =? 11) then 30
  else 31.

Definition valid_ymdb (y m d : Z) : bool :=
  (1 <=? m) && (m <=? 12) && (1 <=? d) && (d <=? days_in_month y m).

Definition valid_ymd (y m d : Z) : Prop := valid_ymdb y m d = true.

Definition ymd_eqb (a b : Z * Z * Z) : bool :=
  let '(y1, m1, d1) := a in let '(y2, m2, d2) := b in
  (y1 =? y2) && (m1 =? m2) && (d1 =? d2).

Lemma ymd_eqb_eq a b : ymd_eqb a b = true -> a = b.
Proof.
  destruct a as [[y1 m1] d1], b as [[y2 m2] d2]; unfold ymd_eqb; intros H.
  apply andb_true_iff in H; destruct H as [H H3].
  apply andb_true_iff in H; destruct H as [H1 H2].
  apply Z.eqb_eq in H1, H2, H3. congruence.
Qed.

(* ---------- linearity in the day field ---------- *)

Lemma dfc_day_linear y m d k : days_from_civil y m (d + k) = days_from_civil y m d + k.
Proof. unfold days_from_civil. lia. Qed.

(* ---------- era shifts ---------- *)

Lemma dfc_shift y m d : days_from_civil (y + 400) m d = days_from_civil y m d + 146097.
Proof.
  unfold days_from_civil.
  replace (if m <=? 2 then y + 400 - 1 else y + 400)
    with ((if m <=? 2 then y - 1 else y) + 1 * 400) by (destruct (m <=? 2); lia).
  rewrite Z.div_add by lia. set (y' := if m <=? 2 then y - 1 else y).
  replace (y' + 1 * 400 - (y' / 400 + 1) * 400) with (y' - y' / 400 * 400) by lia. lia.
Qed.

Lemma cfd_shift z :
  civil_from_days (z + 146097) = let '(y, m, d) := civil_from_days z in (y + 400, m, d).
Proof.
  unfold civil_from_days.
  replace (z + 146097 + 719468) with (z + 719468 + 1 * 146097) by lia.
  rewrite Z.div_add by lia. set (w := z + 719468).
  replace (w + 1 * 146097 - (w / 146097 + 1) * 146097) with (w - w / 146097 * 146097) by lia.
  set (doe := w - w / 146097 * 146097).
  cbv zeta.
  match goal with |- context [if ?c <=? 2 then _ else _] => destruct (c <=? 2) end;
    f_equal; f_equal; lia.
Qed.

Lemma is_leap_shift y : is_leap (y + 400) = is_leap y.
Proof.
  unfold is_leap.
  replace (y + 400) with (y + 100 * 4) at 1 by lia. rewrite Z.mod_add by lia.
  replace (y + 400) with (y + 4 * 100) at 1 by lia. rewrite Z.mod_add by lia.
  replace (y + 400) with (y + 1 * 400) by lia. rewrite Z.mod_add by lia.
  reflexivity.
Qed.

Lemma valid_shift y m d : valid_ymdb (y + 400) m d = valid_ymdb y m d.
Proof. unfold valid_ymdb, days_in_month. rewrite is_leap_shift. reflexivity. Qed.

(* ---------- bounded sweeps ---------- *)

Fixpoint sweep (n : nat) (z : Z) (P : Z -> bool) : bool :=
  match n with
  | O => true
  | S n' => P z && sweep n' (z + 1) P
  end.

Lemma sweep_spec n : forall z P, sweep n z P = true ->
  forall k, z <= k < z + Z.of_nat n -> P k = true.
Proof.
  induction n as [|n IH]; intros z P H k Hk.
  - simpl in Hk. lia.
  - cbn [sweep] in H. apply andb_true_iff in H. destruct H as [H0 H1].
    destruct (Z.eq_dec k z) as [->|Hne]; [exact H0|].
    apply (IH (z + 1) P H1). lia.
Qed.

Definition era_days : nat := Z.to_nat 146097.
Lemma era_days_Z : Z.of_nat era_days = 146097.
Proof. unfold era_days. rewrite Z2Nat.id; lia. Qed.

Definition rt1_check (z : Z) : bool :=
  let '(y, m, d) := civil_from_days z in
  (days_from_civil y m d =? z) && valid_ymdb y m d.

Lemma rt1_era : sweep era_days 0 rt1_check = true.
Proof. vm_compute. reflexivity. Qed.

Lemma rt1_check_shift z : rt1_check (z + 146097) = rt1_check z.
Proof.
  unfold rt1_check. rewrite cfd_shift.
  destruct (civil_from_days z) as [[y m] d].
  rewrite dfc_shift, valid_shift.
  f_equal. destruct (Z.eqb_spec (days_from_civil y m d) z);
    destruct (Z.eqb_spec (days_from_civil y m d + 146097) (z + 146097)); try reflexivity; lia.
Qed.

Lemma shift_induction (P : Z -> Prop) (period : Z) :
  0 < period ->
  (forall z, 0 <= z < period -> P z) ->
  (forall z, P z <-> P (z + period)) ->
  forall z, P z.
Proof.
  intros Hp Hbase Hshift z.
  assert (Hk : forall k : nat, forall r, 0 <= r < period ->
             P (r + Z.of_nat k * period) /\ P (r - Z.of_nat k * period)).
  { induction k as [|k IH]; intros r Hr.
    - simpl. rewrite Z.add_0_r, Z.sub_0_r. split; apply Hbase; exact Hr.
    - destruct (IH r Hr) as [IH1 IH2]. split.
      + replace (r + Z.of_nat (S k) * period) with (r + Z.of_nat k * period + period) by lia.
        apply (proj1 (Hshift _)). exact IH1.
      + apply (proj2 (Hshift _)).
        replace (r - Z.of_nat (S k) * period + period) with (r - Z.of_nat k * period) by lia.
        exact IH2. }
  pose proof (Z.mod_pos_bound z period Hp) as Hr.
  pose proof (Z.div_mod z period ltac:(lia)) as Hdm.
  destruct (Z_le_gt_dec 0 (z / period)) as [Hq|Hq].
  - destruct (Hk (Z.to_nat (z / period)) (z mod period) Hr) as [H1 _].
    rewrite Z2Nat.id in H1 by lia.
    replace z with (z mod period + z / period * period) by lia. exact H1.
  - destruct (Hk (Z.to_nat (- (z / period))) (z mod period) Hr) as [_ H2].
    rewrite Z2Nat.id in H2 by lia.
    replace z with (z mod period - - (z / period) * period) by lia. exact H2.
Qed.

Lemma rt1_all z : rt1_check z = true.
Proof.
  revert z. apply (shift_induction (fun z => rt1_check z = true) 146097); [lia| |].
  - intros z Hz. apply (sweep_spec era_days 0 rt1_check rt1_era).
    rewrite era_days_Z. lia.
  - intros z. rewrite rt1_check_shift. tauto.
Qed.

Theorem civil_from_days_valid z :
  let '(y, m, d) := civil_from_days z in valid_ymd y m d.
Proof.
  pose proof (rt1_all z) as H. unfold rt1_check in H.
  destruct (civil_from_days z) as [[y m] d].
  apply andb_true_iff in H. exact (proj2 H).
Qed.

Theorem days_civil_roundtrip z :
  let '(y, m, d) := civil_from_days z in days_from_civil y m d = z.
Proof.
  pose proof (rt1_all z) as H. unfold rt1_check in H.
  destruct (civil_from_days z) as [[y m] d].
  apply andb_true_iff in H. apply Z.eqb_eq. exact (proj1 H).
Qed.

(* Second direction: sweep the 400 years of one era. *)

Definition rt2_check_md (y : Z) (md : Z) : bool :=
  let m := md / 32 in let d := md mod 32 in
  negb (valid_ymdb y m d) || ymd_eqb (civil_from_days (days_from_civil y m d)) (y, m, d).

Definition rt2_check (y : Z) : bool := sweep 416%nat 0 (rt2_check_md y).

Lemma rt2_era : sweep 400%nat 0 rt2_check = true.
Proof. vm_compute. reflexivity. Qed.

Definition rt2_prop (y : Z) : Prop :=
  forall m d, valid_ymd y m d -> civil_from_days (days_from_civil y m d) = (y, m, d).

Lemma valid_bounds y m d : valid_ymd y m d -> 1 <= m <= 12 /\ 1 <= d <= 31.
Proof.
  unfold valid_ymd, valid_ymdb, days_in_month. intros H.
  repeat (apply andb_true_iff in H; destruct H as [H ?]).
  destruct (m =? 2); [destruct (is_leap y)|]; try lia.
  destruct ((m =? 4) || (m =? 6) || (m =? 9) || (m =? 11)); lia.
Qed.

Lemma rt2_base y : 0 <= y < 400 -> rt2_prop y.
Proof.
  intros Hy m d Hv.
  pose proof (sweep_spec 400 0 rt2_check rt2_era y ltac:(lia)) as Hs.
  unfold rt2_check in Hs.
  destruct (valid_bounds y m d Hv) as [Hm Hd].
  pose proof (sweep_spec 416 0 (rt2_check_md y) Hs (m * 32 + d) ltac:(lia)) as Hc.
  unfold rt2_check_md in Hc.
  replace ((m * 32 + d) / 32) with m in Hc by lia.
  replace ((m * 32 + d) mod 32) with d in Hc by lia.
  unfold valid_ymd in Hv. rewrite Hv in Hc. simpl in Hc.
  apply ymd_eqb_eq. exact Hc.
Qed.

Lemma rt2_shift y : rt2_prop y <-> rt2_prop (y + 400).
Proof.
  unfold rt2_prop, valid_ymd. split; intros H m d Hv.
  - rewrite valid_shift in Hv. rewrite dfc_shift, cfd_shift, (H m d Hv). reflexivity.
  - rewrite <- valid_shift in Hv. specialize (H m d Hv).
    rewrite dfc_shift, cfd_shift in H.
    destruct (civil_from_days (days_from_civil y m d)) as [[y1 m1] d1].
    injection H as H1 H2 H3. subst m1 d1. assert (y1 = y) by lia. subst y1. reflexivity.
Qed.

Theorem civil_days_roundtrip y m d :
  valid_ymd y m d -> civil_from_days (days_from_civil y m d) = (y, m, d).
Proof.
  revert m d. change (rt2_prop y). revert y.
  apply (shift_induction rt2_prop 400); [lia|exact rt2_base|exact rt2_shift].
Qed.

(* Injectivity consequences used by the datetime proofs. *)
Lemma civil_from_days_inj a b : civil_from_days a = civil_from_days b -> a = b.
Proof.
  intros H. pose proof (days_civil_roundtrip a) as Ha. pose proof (days_civil_roundtrip b) as Hb.
  rewrite H in Ha. destruct (civil_from_days b) as [[y m] d]. congruence.
Qed.

(* Epoch sanity. *)
Example dfc_epoch : days_from_civil 1970 1 1 = 0. Proof. reflexivity. Qed.
Example dfc_year0 : days_from_civil 0 1 1 = -719528. Proof. reflexivity. Qed.
Example cfd_epoch : civil_from_days 0 = (1970, 1, 1). Proof. reflexivity. Qed.
