(* Parser.v — reference parser for path/parser/grammar.y (the generated LALR
   tables of grammar.go are not translated), the AST constructors of
   path/ast/ast.go that can fail, ast.New/validateNode, and parser.Parse.

   Shape.  The grammar has two sorts, expr and predicate, sharing "(" ... ")".
   [p_eop] parses an expr_or_predicate by precedence climbing over the levels
     OR(1) < AND(2) < comparison / starts with / like_regex (3) < + - (4)
     < * / % (5) < unary + - (UMINUS)
   and returns the sort of what it found.  [po] ("predicate operand allowed")
   is false where the LALR state only has expr items (operand of unary + -,
   right operand of an arithmetic or comparison operator, subscripts, the
   argument of exists): there "!" and "exists" are immediate syntax errors and
   "(" predicate ")" must be followed by an accessor.
   Semantic actions run in the order of the LALR reductions (post-order, left
   to right), so constructor panics (which parser.Parse now recovers into
   errors) and action errors surface in the same order.

   (e) Error KIND.  Accept/reject is exact.  The kind reported for a rejected
   input is "the first error recorded" (lexer errors appear in the token stream
   as a final TErr token), EXCEPT in the cases listed at the end of this file,
   where Go's answer depends on when the LALR automaton asks for its
   look-ahead, or on Go continuing after the first error until a constructor
   panic replaces the message. *)
From SJ Require Import lib.Base lib.Utf8 lib.GoLib model.Json model.Ast model.Lexer.
Local Open Scope list_scope.
Notation length := List.length (only parsing).

Inductive err_kind :=
| ELex (e : lex_err)
| ESyntax            (* "syntax error" from the generated parser *)
| EIntParse          (* NewInteger panicked: strconv.ParseInt error (range or syntax) *)
| EFloatParse        (* NewNumeric panicked: strconv.ParseFloat error *)
| EDecimalArgs       (* .decimal() can only have an optional precision[,scale] *)
| ERegexFlag         (* Unrecognized flag character *)
| ERegexX            (* XQuery "x" flag ... is not implemented *)
| ERegexPattern      (* error parsing regexp *)
| ECurrentRoot       (* @ is not allowed in root expressions *)
| ELastSubscript     (* LAST is allowed only in array subscripts *)
| EFuel.             (* model artefact; unreachable (parse_total) *)

Inductive parse_result := POk (p : path) | PErr (k : err_kind).

Inductive pres (A : Type) : Type := ROk (a : A) | RErr (e : err_kind).
Arguments ROk {A} a.
Arguments RErr {A} e.

Definition rbind {A B} (x : pres A) (f : A -> pres B) : pres B :=
  match x with ROk a => f a | RErr e => RErr e end.

Declare Scope parse_scope.
Notation "'let+' x := a 'in' b" := (rbind a (fun x => b))
  (at level 200, x pattern, a at level 100, b at level 200) : parse_scope.
Open Scope parse_scope.

Inductive sort := SE | SP.   (* expr / predicate *)

(* A syntax error at the current token; if that token is the lexer's error
   marker the lexer's error was recorded first. *)
Definition syn {A} (ts : list token) : pres A :=
  match ts with
  | mktok (TErr e) _ :: _ => RErr (ELex e)
  | _ => RErr ESyntax
  end.

Section WithLib.
Variable L : GoLib.

(* ------------------------------------------------------------------ *)
(* constructors that can fail *)

(* ast.NewInteger: panics on any strconv.ParseInt(s, 0, 64) error *)
Definition new_integer (text : string) : pres Z :=
  match parse_int0 L text with Some z => ROk z | None => RErr EIntParse end.

(* ast.NewNumeric: panics on any strconv.ParseFloat error (incl. range) *)
Definition new_numeric (text : string) : pres f64 :=
  match parse_float L text with
  | Some (v, false) => ROk v
  | _ => RErr EFloatParse
  end.

(* ast.NewUnaryOrNumber.  The Go code re-parses "-"+literal (or strips the
   "-"); on the value level that is negation: ParseInt/ParseFloat of a text
   and of the text with a minus sign differ by the sign, and neither can newly
   fail (the literal parsed, its magnitude is at most MaxInt64). *)
Definition new_unary_or_number (op : unop) (c : chain) : chain :=
  match c with
  | [SInteger z] => match op with UMinus => [SInteger (- z)] | _ => c end
  | [SNumeric f] => match op with UMinus => [SNumeric (f64_neg L f)] | _ => c end
  | _ => [SUn op c]
  end.

(* ast.NewAny *)
Definition any_bound (x : Z) : Z :=
  if (0 <=? x) && (x <? max_uint32) then x else max_uint32.
Definition new_any (first last : Z) : step := SAny (any_bound first) (any_bound last).

(* ast.newRegexFlags + validateRegex *)
Fixpoint regex_flags_loop (l : list Z) (mask : Z) : option Z :=
  match l with
  | [] => Some mask
  | c :: r =>
      if c =? 105 then regex_flags_loop r (Z.lor mask reICase)
      else if c =? 115 then regex_flags_loop r (Z.lor mask reDotAll)
      else if c =? 109 then regex_flags_loop r (Z.lor mask reMLine)
      else if c =? 120 then regex_flags_loop r (Z.lor mask reWSpace)
      else if c =? 113 then regex_flags_loop r (Z.lor mask reQuote)
      else None
  end.

Definition new_regex (a : chain) (pat flags : string) : pres step :=
  match regex_flags_loop (bytes_of flags) 0 with
  | None => RErr ERegexFlag
  | Some m =>
      if (Z.land m reQuote =? 0) && negb (Z.land m reWSpace =? 0) then RErr ERegexX
      else if regex_ok L pat m then ROk (SRegex a pat m)
      else RErr ERegexPattern
  end.

(* ------------------------------------------------------------------ *)
(* token helpers *)

Definition is_char (t : token) (c : Z) : bool :=
  match tk t with TChar c' => c' =? c | _ => false end.

Definition meth_of_kw (k : kw) : option meth :=
  match k with
  | KAbs => Some MAbs | KSize => Some MSize | KType => Some MType | KFloor => Some MFloor
  | KDouble => Some MDouble | KCeiling => Some MCeiling | KKeyvalue => Some MKeyValue
  | KBigint => Some MBigInt | KBoolean => Some MBoolean | KInteger => Some MInteger
  | KNumber => Some MNumber | KStringfunc => Some MString
  | _ => None
  end.

Definition dtprec_of_kw (k : kw) : option dtop :=
  match k with
  | KTime => Some DTime | KTimeTz => Some DTimeTZ
  | KTimestamp => Some DTimestamp | KTimestampTz => Some DTimestampTZ
  | _ => None
  end.

Definition cmp_of_tok (k : tkind) : option binop :=
  match k with
  | TEqual => Some BEq | TNotEqual => Some BNe | TLess => Some BLt | TGreater => Some BGt
  | TLessEq => Some BLe | TGreaterEq => Some BGe
  | _ => None
  end.

(* arithmetic operator and its level *)
Definition arith_of_tok (k : tkind) : option (binop * nat) :=
  match k with
  | TChar 43 => Some (BAdd, 4%nat)
  | TChar 45 => Some (BSub, 4%nat)
  | TChar 42 => Some (BMul, 5%nat)
  | TChar 47 => Some (BDiv, 5%nat)
  | TChar 37 => Some (BMod, 5%nat)
  | _ => None
  end.

(* ------------------------------------------------------------------ *)
(* the non-recursive accessor pieces *)

(* any_level *)
Definition p_any_level (ts : list token) : pres (Z * list token) :=
  match ts with
  | mktok TInt txt :: r =>
      (* anyLevel: strconv.ParseInt(text, 0, 0); any error means unbounded *)
      ROk (match parse_int0 L txt with Some z => z | None => -1 end, r)
  | mktok (TKw KLast) _ :: r => ROk (-1, r)
  | _ => syn ts
  end.

(* any_path, after ANY_P *)
Definition p_any (ts : list token) : pres (step * list token) :=
  match ts with
  | mktok (TChar 123) _ :: r =>
      let+ (a, r1) := p_any_level r in
      match r1 with
      | mktok (TChar 125) _ :: r2 => ROk (new_any a a, r2)
      | mktok (TKw KTo) _ :: r2 =>
          let+ (b, r3) := p_any_level r2 in
          match r3 with
          | mktok (TChar 125) _ :: r4 => ROk (new_any a b, r4)
          | _ => syn r3
          end
      | _ => syn r1
      end
  | _ => ROk (new_any 0 (-1), ts)
  end.

(* csv_elem *)
Definition p_csv_elem (ts : list token) : pres (Z * list token) :=
  match ts with
  | mktok TInt txt :: r => let+ z := new_integer txt in ROk (z, r)
  | mktok (TChar 43) _ :: mktok TInt txt :: r => let+ z := new_integer txt in ROk (z, r)
  | mktok (TChar 45) _ :: mktok TInt txt :: r => let+ z := new_integer txt in ROk (- z, r)
  | mktok (TChar 43) _ :: r => syn r
  | mktok (TChar 45) _ :: r => syn r
  | _ => syn ts
  end.

(* csv_list continued: after an element; stops after the ")".  Structural on
   the token list (the csv_elem alternatives are inlined). *)
Fixpoint p_csv_rest (acc : list Z) (ts : list token) {struct ts} : pres (list Z * list token) :=
  match ts with
  | mktok (TChar 41) _ :: r => ROk (acc, r)
  | mktok (TChar 44) _ :: r =>
      match r with
      | mktok TInt txt :: r1 => let+ z := new_integer txt in p_csv_rest (acc ++ [z]) r1
      | mktok (TChar 43) _ :: mktok TInt txt :: r1 =>
          let+ z := new_integer txt in p_csv_rest (acc ++ [z]) r1
      | mktok (TChar 45) _ :: mktok TInt txt :: r1 =>
          let+ z := new_integer txt in p_csv_rest (acc ++ [- z]) r1
      | mktok (TChar 43) _ :: r1 => syn r1
      | mktok (TChar 45) _ :: r1 => syn r1
      | _ => syn r
      end
  | _ => syn ts
  end.

(* "(" opt_csv_list ")" of .decimal, after the "(" *)
Definition p_decimal_args (ts : list token) : pres (step * list token) :=
  let+ (args, r) :=
     (match ts with
      | mktok (TChar 41) _ :: r => ROk ([], r)
      | _ => let+ (z, r1) := p_csv_elem ts in p_csv_rest [z] r1
      end) in
  match args with
  | [] => ROk (SDecimal None None, r)
  | [p] => ROk (SDecimal (Some p) None, r)
  | [p; s] => ROk (SDecimal (Some p) (Some s), r)
  | _ => RErr EDecimalArgs
  end.

(* accessor_op starting with ".", after the "." *)
Definition p_dot (ts : list token) : pres (step * list token) :=
  match ts with
  | mktok (TChar 42) _ :: r => ROk (SConst CAnyKey, r)
  | mktok TAny _ :: r => p_any r
  | mktok TIdent txt :: r => ROk (SKey txt, r)
  | mktok TString txt :: r => ROk (SKey txt, r)
  | mktok (TKw k) txt :: r =>
      match r with
      | mktok (TChar 40) _ :: r1 =>
          match meth_of_kw k with
          | Some m =>
              match r1 with
              | mktok (TChar 41) _ :: r2 => ROk (SMeth m, r2)
              | _ => syn r1
              end
          | None =>
              match k with
              | KDecimal => p_decimal_args r1
              | KDate =>
                  match r1 with
                  | mktok (TChar 41) _ :: r2 => ROk (SDt DDate None None, r2)
                  | _ => syn r1
                  end
              | KDatetime =>
                  match r1 with
                  | mktok (TChar 41) _ :: r2 => ROk (SDt DDateTime None None, r2)
                  | mktok TString s :: r2 =>
                      match r2 with
                      | mktok (TChar 41) _ :: r3 => ROk (SDt DDateTime (Some s) None, r3)
                      | _ => syn r2
                      end
                  | _ => syn r1
                  end
              | _ =>
                  match dtprec_of_kw k with
                  | Some op =>
                      match r1 with
                      | mktok (TChar 41) _ :: r2 => ROk (SDt op None None, r2)
                      | mktok TInt s :: r2 =>
                          let+ z := new_integer s in
                          match r2 with
                          | mktok (TChar 41) _ :: r3 => ROk (SDt op None (Some z), r3)
                          | _ => syn r2
                          end
                      | _ => syn r1
                      end
                  | None => ROk (SKey txt, r)     (* key_name; "(" is then a syntax error upstream *)
                  end
              end
          end
      | _ => ROk (SKey txt, r)
      end
  | _ => syn ts
  end.

(* scalar_value / path_primary *)
Definition p_primary (ts : list token) : option (pres (step * list token)) :=
  match ts with
  | mktok TString txt :: r => Some (ROk (SStr txt, r))
  | mktok (TKw KNull) _ :: r => Some (ROk (SConst CNull, r))
  | mktok (TKw KTrue) _ :: r => Some (ROk (SConst CTrue, r))
  | mktok (TKw KFalse) _ :: r => Some (ROk (SConst CFalse, r))
  | mktok TNumeric txt :: r => Some (let+ v := new_numeric txt in ROk (SNumeric v, r))
  | mktok TInt txt :: r => Some (let+ z := new_integer txt in ROk (SInteger z, r))
  | mktok TVariable txt :: r => Some (ROk (SVar txt, r))
  | mktok (TChar 36) _ :: r => Some (ROk (SConst CRoot, r))
  | mktok (TChar 64) _ :: r => Some (ROk (SConst CCurrent, r))
  | mktok (TKw KLast) _ :: r => Some (ROk (SConst CLast, r))
  | _ => None
  end.

Definition starts_accessor (ts : list token) : bool :=
  match ts with
  | t :: _ => is_char t 46 || is_char t 91 || is_char t 63
  | [] => false
  end.

(* ------------------------------------------------------------------ *)
(* the recursive core *)

Fixpoint p_eop (fuel : nat) (minp : nat) (po : bool) (ts : list token) {struct fuel}
  : pres (sort * chain * list token) :=
  match fuel with
  | O => RErr EFuel
  | S f =>
      let+ (s, c, r) := p_unary f po ts in p_loop f minp s c r
  end

with p_unary (fuel : nat) (po : bool) (ts : list token) {struct fuel}
  : pres (sort * chain * list token) :=
  match fuel with
  | O => RErr EFuel
  | S f =>
      match p_primary ts with
      | Some res =>
          let+ (st, r) := res in
          let+ (accs, r1) := p_accs f r in
          ROk (SE, st :: accs, r1)
      | None =>
          match ts with
          | mktok (TChar 43) _ :: r =>
              let+ (_, c, r1) := p_unary f false r in
              ROk (SE, new_unary_or_number UPlus c, r1)
          | mktok (TChar 45) _ :: r =>
              let+ (_, c, r1) := p_unary f false r in
              ROk (SE, new_unary_or_number UMinus c, r1)
          | mktok (TChar 40) _ :: r =>
              let+ (s, c, r1) := p_eop f 0 true r in
              match r1 with
              | mktok (TChar 41) _ :: r2 =>
                  if starts_accessor r2 then
                    let+ (accs, r3) := p_accs f r2 in ROk (SE, c ++ accs, r3)
                  else
                    match s with
                    | SE => ROk (SE, c, r2)
                    | SP =>
                        match r2 with
                        | mktok (TKw KIs) _ :: r3 =>
                            if po then
                              match r3 with
                              | mktok (TKw KUnknown) _ :: r4 => ROk (SP, [SUn UIsUnknown c], r4)
                              | _ => syn r3
                              end
                            else syn r2
                        | _ => if po then ROk (SP, c, r2) else syn r2
                        end
                    end
              | _ => syn r1
              end
          | mktok TNot _ :: r =>
              if po then
                match r with
                | mktok (TChar 40) _ :: r1 =>
                    let+ (s, c, r2) := p_eop f 0 true r1 in
                    match s, r2 with
                    | SP, mktok (TChar 41) _ :: r3 => ROk (SP, [SUn UNot c], r3)
                    | _, _ => syn r2
                    end
                | mktok (TKw KExists) _ :: mktok (TChar 40) _ :: r1 =>
                    let+ (_, c, r2) := p_eop f 4 false r1 in
                    match r2 with
                    | mktok (TChar 41) _ :: r3 => ROk (SP, [SUn UNot [SUn UExists c]], r3)
                    | _ => syn r2
                    end
                | mktok (TKw KExists) _ :: r1 => syn r1
                | _ => syn r
                end
              else syn ts
          | mktok (TKw KExists) _ :: r =>
              if po then
                match r with
                | mktok (TChar 40) _ :: r1 =>
                    let+ (_, c, r2) := p_eop f 4 false r1 in
                    match r2 with
                    | mktok (TChar 41) _ :: r3 => ROk (SP, [SUn UExists c], r3)
                    | _ => syn r2
                    end
                | _ => syn r
                end
              else syn ts
          | _ => syn ts
          end
      end
  end

with p_loop (fuel : nat) (minp : nat) (s : sort) (lhs : chain) (ts : list token) {struct fuel}
  : pres (sort * chain * list token) :=
  match fuel with
  | O => RErr EFuel
  | S f =>
      match ts with
      | [] => ROk (s, lhs, ts)
      | t :: r =>
          match arith_of_tok (tk t) with
          | Some (op, q) =>
              match s with
              | SP => ROk (s, lhs, ts)      (* no shift: default reductions, the caller rejects the token *)
              | SE =>
                  if (minp <=? q)%nat then
                    let+ (_, rhs, r1) := p_eop f (S q) false r in
                    p_loop f minp SE [SBin op lhs rhs] r1
                  else ROk (s, lhs, ts)
              end
          | None =>
          match cmp_of_tok (tk t) with
          | Some op =>
              if (minp <=? 3)%nat then
                match s with
                | SP => ROk (s, lhs, ts)
                | SE =>
                    let+ (_, rhs, r1) := p_eop f 4 false r in
                    p_loop f minp SP [SBin op lhs rhs] r1
                end
              else ROk (s, lhs, ts)
          | None =>
          match tk t with
          | TKw KStarts =>
              if (minp <=? 3)%nat then
                match s with
                | SP => ROk (s, lhs, ts)
                | SE =>
                    match r with
                    | mktok (TKw KWith) _ :: mktok TString txt :: r1 =>
                        p_loop f minp SP [SBin BStartsWith lhs [SStr txt]] r1
                    | mktok (TKw KWith) _ :: mktok TVariable txt :: r1 =>
                        p_loop f minp SP [SBin BStartsWith lhs [SVar txt]] r1
                    | mktok (TKw KWith) _ :: r1 => syn r1
                    | _ => syn r
                    end
                end
              else ROk (s, lhs, ts)
          | TKw KLikeRegex =>
              if (minp <=? 3)%nat then
                match s with
                | SP => ROk (s, lhs, ts)
                | SE =>
                    match r with
                    | mktok TString pat :: mktok (TKw KFlag) _ :: mktok TString fl :: r1 =>
                        let+ st := new_regex lhs pat fl in p_loop f minp SP [st] r1
                    | mktok TString pat :: mktok (TKw KFlag) _ :: r1 => syn r1
                    | mktok TString pat :: mktok (TErr e) _ :: _ => RErr (ELex e)
                    | mktok TString pat :: r1 =>
                        let+ st := new_regex lhs pat "" in p_loop f minp SP [st] r1
                    | _ => syn r
                    end
                end
              else ROk (s, lhs, ts)
          | TAnd =>
              if (minp <=? 2)%nat then
                match s with
                | SE => ROk (s, lhs, ts)
                | SP =>
                    let+ (s2, rhs, r1) := p_eop f 3 true r in
                    match s2 with
                    | SP => p_loop f minp SP [SBin BAnd lhs rhs] r1
                    | SE => syn r1
                    end
                end
              else ROk (s, lhs, ts)
          | TOr =>
              if (minp <=? 1)%nat then
                match s with
                | SE => ROk (s, lhs, ts)
                | SP =>
                    let+ (s2, rhs, r1) := p_eop f 2 true r in
                    match s2 with
                    | SP => p_loop f minp SP [SBin BOr lhs rhs] r1
                    | SE => syn r1
                    end
                end
              else ROk (s, lhs, ts)
          | _ => ROk (s, lhs, ts)
          end end end
      end
  end

(* zero or more accessor_op *)
with p_accs (fuel : nat) (ts : list token) {struct fuel} : pres (chain * list token) :=
  match fuel with
  | O => RErr EFuel
  | S f =>
      match ts with
      | mktok (TChar 46) _ :: r =>
          let+ (st, r1) := p_dot r in
          let+ (more, r2) := p_accs f r1 in ROk (st :: more, r2)
      | mktok (TChar 91) _ :: r =>
          let+ (st, r1) :=
             (match r with
              | mktok (TChar 42) _ :: r0 =>
                  match r0 with
                  | mktok (TChar 93) _ :: r1 => ROk (SConst CAnyArray, r1)
                  | _ => syn r0
                  end
              | _ => let+ (subs, r1) := p_index f r in ROk (SIndex subs, r1)
              end) in
          let+ (more, r2) := p_accs f r1 in ROk (st :: more, r2)
      | mktok (TChar 63) _ :: r =>
          match r with
          | mktok (TChar 40) _ :: r0 =>
              let+ (s, c, r1) := p_eop f 0 true r0 in
              match s, r1 with
              | SP, mktok (TChar 41) _ :: r2 =>
                  let+ (more, r3) := p_accs f r2 in ROk (SUn UFilter c :: more, r3)
              | _, _ => syn r1
              end
          | _ => syn r
          end
      | _ => ROk ([], ts)
      end
  end

(* index_list "]" *)
with p_index (fuel : nat) (ts : list token) {struct fuel}
  : pres (list (chain * option chain) * list token) :=
  match fuel with
  | O => RErr EFuel
  | S f =>
      let+ (_, a, r) := p_eop f 4 false ts in
      let+ (b, r1) :=
         (match r with
          | mktok (TKw KTo) _ :: r0 =>
              let+ (_, b, r1) := p_eop f 4 false r0 in ROk (Some b, r1)
          | _ => ROk (None, r)
          end) in
      match r1 with
      | mktok (TChar 93) _ :: r2 => ROk ([(a, b)], r2)
      | mktok (TChar 44) _ :: r2 =>
          let+ (more, r3) := p_index f r2 in ROk ((a, b) :: more, r3)
      | _ => syn r1
      end
  end.

(* ------------------------------------------------------------------ *)
(* ast.New: validateNode *)

Fixpoint validate_step (s : step) (depth : nat) (insub : bool) {struct s} : option err_kind :=
  let vchain := fix vc (c : list step) (depth : nat) (insub : bool) {struct c} : option err_kind :=
    match c with
    | [] => None
    | x :: r => match validate_step x depth insub with Some e => Some e | None => vc r depth insub end
    end in
  match s with
  | SBin _ l r =>
      match vchain l depth insub with Some e => Some e | None => vchain r depth insub end
  | SUn op a => vchain a (match op with UFilter => S depth | _ => depth end) insub
  | SRegex a _ _ => vchain a depth insub
  | SConst CCurrent => match depth with O => Some ECurrentRoot | _ => None end
  | SConst CLast => if insub then None else Some ELastSubscript
  | SIndex subs =>
      (fix vs (l : list (list step * option (list step))) : option err_kind :=
         match l with
         | [] => None
         | (a, b) :: r =>
             match vchain a depth true with
             | Some e => Some e
             | None =>
                 match (match b with Some c => vchain c depth true | None => None end) with
                 | Some e => Some e
                 | None => vs r
                 end
             end
         end) subs
  | _ => None
  end.

Fixpoint validate_chain (c : chain) (depth : nat) (insub : bool) : option err_kind :=
  match c with
  | [] => None
  | x :: r => match validate_step x depth insub with Some e => Some e | None => validate_chain r depth insub end
  end.

(* ------------------------------------------------------------------ *)
(* result: mode expr_or_predicate; setResult; parser.Parse *)

Definition parser_fuel (ts : list token) : nat := (6 * length ts + 8)%nat.

Definition parse_tokens (ts : list token) : parse_result :=
  let (lax, ts1) :=
    match ts with
    | mktok (TKw KStrict) _ :: r => (false, r)
    | mktok (TKw KLax) _ :: r => (true, r)
    | _ => (true, ts)
    end in
  match p_eop (parser_fuel ts1) 0 true ts1 with
  | RErr e => PErr e
  | ROk (s, c, r) =>
      match r with
      | [] =>
          match validate_chain c 0 false with
          | Some e => PErr e
          | None => POk (mkpath lax (match s with SP => true | SE => false end) c)
          end
      | mktok (TErr e) _ :: _ => PErr (ELex e)
      | _ =>
          (* an unexpected token after a complete expr_or_predicate: the default
             reductions run up to "result" (setResult -> ast.New -> validateNode)
             before the generated parser reports the syntax error *)
          match validate_chain c 0 false with
          | Some e => PErr e
          | None => PErr ESyntax
          end
      end
  end.

Definition parse (s : string) : parse_result := parse_tokens (lex L s).

End WithLib.

(* ------------------------------------------------------------------ *)
(* wf_path: the image of the parser ("what Parse can return"). *)

Definition is_accessor_step (s : step) : bool :=
  match s with
  | SKey _ | SConst CAnyKey | SConst CAnyArray | SAny _ _ | SMeth _ | SDecimal _ _
  | SDt _ _ _ | SIndex _ | SUn UFilter _ => true
  | _ => false
  end.

(* a predicate node: what the grammar's "predicate" builds *)
Definition is_pred_step (s : step) : bool :=
  match s with
  | SBin (BAnd | BOr | BEq | BNe | BLt | BGt | BLe | BGe | BStartsWith) _ _ => true
  | SUn (UNot | UExists | UIsUnknown) _ => true
  | SRegex _ _ _ => true
  | _ => false
  end.

(* sort of a chain: a predicate is a single predicate node without a tail *)
Definition is_pred_chain (c : chain) : bool :=
  match c with [s] => is_pred_step s | _ => false end.
Definition is_expr_chain (c : chain) : bool := negb (is_pred_chain c).

(* head is a primary or an operator node, the rest are accessor steps *)
Definition chain_shape (c : chain) : bool :=
  match c with
  | [] => false
  | h :: t => negb (is_accessor_step h) && forallb is_accessor_step t
  end.

(* text produced by the lexer: valid UTF-8 of non-NUL runes *)
Definition wf_text (s : string) : bool :=
  let rs := runes_of s in
  forallb (fun r => valid_rune r && negb (r =? 0)) rs && String.eqb (string_of_runes rs) s.

Definition is_number_chain (c : chain) : bool :=
  match c with [SInteger _] | [SNumeric _] => true | _ => false end.

Definition lit_int_ok (z : Z) : bool := (- max_int64 <=? z) && (z <=? max_int64).

Section Wf.
Variable L : GoLib.

(* what must hold of one node, looking at its immediate operands only *)
Definition step_ok (s : step) : bool :=
  match s with
  | SConst _ | SMeth _ => true
  | SStr t | SVar t | SKey t => wf_text t
  | SInteger z => lit_int_ok z
  | SNumeric f => f64_finite f
  | SBin op l r =>
      match op with
      | BAnd | BOr => is_pred_chain l && is_pred_chain r
      | BStartsWith =>
          is_expr_chain l && match r with [SStr _] | [SVar _] => true | _ => false end
      | _ => is_expr_chain l && is_expr_chain r
      end
  | SUn op a =>
      match op with
      | UNot | UIsUnknown | UFilter => is_pred_chain a
      | UExists => is_expr_chain a
      | UPlus | UMinus => is_expr_chain a && negb (is_number_chain a)
      end
  | SRegex a pat fl =>
      is_expr_chain a && wf_text pat && (0 <=? fl) && (fl <? 32) &&
      ((Z.land fl reWSpace =? 0) || negb (Z.land fl reQuote =? 0)) && regex_ok L pat fl
  | SDecimal p sc =>
      match p, sc with
      | None, Some _ => false
      | _, _ => match p with Some z => lit_int_ok z | None => true end &&
                match sc with Some z => lit_int_ok z | None => true end
      end
  | SDt op tmpl prec =>
      match op with
      | DDate => match tmpl, prec with None, None => true | _, _ => false end
      | DDateTime => match prec with None => match tmpl with Some t => wf_text t | None => true end | _ => false end
      | _ => match tmpl with
             | None => match prec with Some z => (0 <=? z) && (z <=? max_int64) | None => true end
             | _ => false
             end
      end
  | SAny a b => (0 <=? a) && (a <=? max_uint32) && (0 <=? b) && (b <=? max_uint32)
  | SIndex subs =>
      negb (match subs with [] => true | _ => false end) &&
      forallb (fun ab => is_expr_chain (fst ab) &&
                         match snd ab with Some c => is_expr_chain c | None => true end) subs
  end.

(* every node anywhere satisfies P and every chain anywhere satisfies Q *)
Fixpoint st_all (P : step -> bool) (Q : list step -> bool) (s : step) {struct s} : bool :=
  let ca := fix ca (c : list step) {struct c} : bool :=
    match c with [] => true | x :: r => st_all P Q x && ca r end in
  P s &&
  match s with
  | SBin _ l r => Q l && ca l && (Q r && ca r)
  | SUn _ a => Q a && ca a
  | SRegex a _ _ => Q a && ca a
  | SIndex subs =>
      (fix ss (l : list (list step * option (list step))) : bool :=
         match l with
         | [] => true
         | (a, b) :: r =>
             Q a && ca a && match b with Some c => Q c && ca c | None => true end && ss r
         end) subs
  | _ => true
  end.

Fixpoint ch_all (P : step -> bool) (Q : list step -> bool) (c : chain) : bool :=
  match c with [] => true | x :: r => st_all P Q x && ch_all P Q r end.

Definition wf_chain (c : chain) : bool := chain_shape c && ch_all step_ok chain_shape c.

Definition wf_path (p : path) : Prop :=
  wf_chain (p_root p) = true /\
  validate_chain (p_root p) 0 false = None /\
  p_pred p = is_pred_chain (p_root p).

End Wf.

(* Cases found where Go's error MESSAGE (not accept/reject) differs from the
   kind computed here — see tools/parsevec (check.sh prints them as class
   "kind"):
   1. Go keeps lexing after a lexer error (stopTok == noChar, so the next Lex
      call resumes after the offending rune); if a later token makes a
      constructor panic (NewInteger/NewNumeric out of range, nil-deref in
      LinkNodes after a failed NewRegex), the recovered panic message replaces
      errors[0].  Here: the first error.
   2. After a failed NewRegex / .decimal() argument count the Go parser goes
      on (the action only records the error) and a later panic replaces the
      message; identifiers lexed after any recorded error return stopTok.
      Here: the first error.
   3. A state with a default reduction runs its action before the look-ahead
      is lexed, so an action error can precede a lexer error in the token that
      follows, where this parser peeks first or vice versa (only the regex
      look-ahead for FLAG_P is treated specially above). *)
