(* Ast.v — the path AST (Go: path/ast).  A Go node together with the nodes
   reachable through Next() is a [chain] = list of steps; LinkNodes is [++].
   Only shapes the grammar can build are representable (parser image):
   .decimal() arguments are integer literals, datetime arguments are a string
   template or an integer precision, subscripts live only inside SIndex. *)
From SJ Require Import lib.Base model.Json.

Inductive constk := CRoot | CCurrent | CLast | CAnyArray | CAnyKey | CTrue | CFalse | CNull.

Inductive binop :=
| BAnd | BOr | BEq | BNe | BLt | BGt | BLe | BGe | BStartsWith
| BAdd | BSub | BMul | BDiv | BMod.

Inductive unop := UExists | UNot | UIsUnknown | UPlus | UMinus | UFilter.

Inductive dtop := DDateTime | DDate | DTime | DTimeTZ | DTimestamp | DTimestampTZ.

Inductive meth :=
| MAbs | MSize | MType | MFloor | MCeiling | MDouble | MKeyValue
| MBigInt | MBoolean | MInteger | MNumber | MString.

Inductive step :=
| SConst (k : constk)
| SStr (s : string)
| SInteger (z : Z)
| SNumeric (f : f64)
| SVar (s : string)
| SKey (s : string)
| SBin (op : binop) (l r : list step)
| SUn (op : unop) (a : list step)
| SRegex (a : list step) (pat : string) (flags : Z)
| SMeth (m : meth)
| SDecimal (p s : option Z)
| SDt (op : dtop) (tmpl : option string) (prec : option Z)
| SAny (first last : Z)            (* uint32; 4294967295 = unbounded *)
| SIndex (subs : list (list step * option (list step))).

Definition chain := list step.

Record path := mkpath { p_lax : bool; p_pred : bool; p_root : chain }.

(* regex flag bits, as in path/ast/regex.go *)
Definition reICase : Z := 1.
Definition reDotAll : Z := 2.
Definition reMLine : Z := 4.
Definition reWSpace : Z := 8.
Definition reQuote : Z := 16.

Definition binop_eqb (a b : binop) : bool :=
  match a, b with
  | BAnd, BAnd | BOr, BOr | BEq, BEq | BNe, BNe | BLt, BLt | BGt, BGt | BLe, BLe
  | BGe, BGe | BStartsWith, BStartsWith | BAdd, BAdd | BSub, BSub | BMul, BMul
  | BDiv, BDiv | BMod, BMod => true
  | _, _ => false
  end.

(* size, used as a termination/induction measure *)
Fixpoint step_size (s : step) : nat :=
  let chain_size := fix cs (c : list step) : nat :=
    match c with [] => O | x :: r => (step_size x + cs r)%nat end in
  match s with
  | SBin _ l r => S (chain_size l + chain_size r)
  | SUn _ a => S (chain_size a)
  | SRegex a _ _ => S (chain_size a)
  | SIndex subs =>
      S ((fix ss (l : list (list step * option (list step))) : nat :=
            match l with
            | [] => O
            | (a, b) :: r => (S (chain_size a + match b with Some c => chain_size c | None => O end) + ss r)%nat
            end) subs)
  | _ => 1%nat
  end.

Fixpoint chain_size (c : chain) : nat :=
  match c with [] => O | x :: r => (step_size x + chain_size r)%nat end.

Definition subs_size (l : list (chain * option chain)) : nat :=
  fold_right (fun ab acc => (S (chain_size (fst ab) + match snd ab with Some c => chain_size c | None => O end) + acc)%nat) O l.

Lemma step_size_pos s : (1 <= step_size s)%nat.
Proof. destruct s; simpl; lia. Qed.

(* Induction principle reaching through the nested lists. *)
Section StepInd.
  Variable P : step -> Prop.
  Variable Q : chain -> Prop.
  Hypothesis Qnil : Q [].
  Hypothesis Qcons : forall s c, P s -> Q c -> Q (s :: c).
  Hypothesis Hconst : forall k, P (SConst k).
  Hypothesis Hstr : forall s, P (SStr s).
  Hypothesis Hint : forall z, P (SInteger z).
  Hypothesis Hnum : forall f, P (SNumeric f).
  Hypothesis Hvar : forall s, P (SVar s).
  Hypothesis Hkey : forall s, P (SKey s).
  Hypothesis Hbin : forall op l r, Q l -> Q r -> P (SBin op l r).
  Hypothesis Hun : forall op a, Q a -> P (SUn op a).
  Hypothesis Hregex : forall a p f, Q a -> P (SRegex a p f).
  Hypothesis Hmeth : forall m, P (SMeth m).
  Hypothesis Hdec : forall p s, P (SDecimal p s).
  Hypothesis Hdt : forall op t p, P (SDt op t p).
  Hypothesis Hany : forall f l, P (SAny f l).
  Hypothesis Hindex : forall subs,
      Forall (fun ab => Q (fst ab) /\ match snd ab with Some c => Q c | None => True end) subs ->
      P (SIndex subs).

  Fixpoint step_ind' (s : step) : P s :=
    let chain_ind' := fix ci (c : list step) : Q c :=
      match c with [] => Qnil | x :: r => Qcons x r (step_ind' x) (ci r) end in
    match s with
    | SConst k => Hconst k
    | SStr x => Hstr x
    | SInteger z => Hint z
    | SNumeric f => Hnum f
    | SVar x => Hvar x
    | SKey x => Hkey x
    | SBin op l r => Hbin op l r (chain_ind' l) (chain_ind' r)
    | SUn op a => Hun op a (chain_ind' a)
    | SRegex a p f => Hregex a p f (chain_ind' a)
    | SMeth m => Hmeth m
    | SDecimal p x => Hdec p x
    | SDt op t p => Hdt op t p
    | SAny f l => Hany f l
    | SIndex subs =>
        Hindex subs
          ((fix si (l : list (list step * option (list step))) :
              Forall (fun ab => Q (fst ab) /\ match snd ab with Some c => Q c | None => True end) l :=
              match l with
              | [] => Forall_nil _
              | (a, b) :: r =>
                  @Forall_cons _ (fun ab => Q (fst ab) /\ match snd ab with Some c => Q c | None => True end)
                    (a, b) r
                    (@conj (Q a) (match b with Some c => Q c | None => True end)
                          (chain_ind' a)
                          (match b as b0 return (match b0 with Some c => Q c | None => True end : Prop) with
                           | Some c => chain_ind' c
                           | None => I
                           end))
                    (si r)
              end) subs)
    end.

  Fixpoint chain_ind' (c : chain) : Q c :=
    match c with [] => Qnil | x :: r => Qcons x r (step_ind' x) (chain_ind' r) end.
End StepInd.
