(* Printer.v — transliteration of AST.String() / Node.writeTo / priority /
   quote / regexFlags.String of path/ast.  A Go node and its Next() list is a
   chain; writeTo of a node prints the node and then its next with
   (inKey = true, withParens = true). *)
From SJ Require Import lib.Base lib.Utf8 lib.GoLib model.Json model.Ast.
Local Open Scope list_scope.
Local Open Scope string_scope.
Local Open Scope Z_scope.

Definition binop_name (op : binop) : string :=
  match op with
  | BAnd => "&&" | BOr => "||" | BEq => "==" | BNe => "!=" | BLt => "<" | BGt => ">"
  | BLe => "<=" | BGe => ">=" | BStartsWith => "starts with"
  | BAdd => "+" | BSub => "-" | BMul => "*" | BDiv => "/" | BMod => "%"
  end.

Definition binop_prio (op : binop) : nat :=
  match op with
  | BOr => 0%nat | BAnd => 1%nat
  | BEq | BNe | BLt | BGt | BLe | BGe | BStartsWith => 2%nat
  | BAdd | BSub => 3%nat
  | BMul | BDiv | BMod => 4%nat
  end.

Definition const_name (k : constk) : string :=
  match k with
  | CRoot => "$" | CCurrent => "@" | CLast => "last" | CAnyArray => "[*]" | CAnyKey => "*"
  | CTrue => "true" | CFalse => "false" | CNull => "null"
  end.

Definition meth_name (m : meth) : string :=
  match m with
  | MAbs => ".abs()" | MSize => ".size()" | MType => ".type()" | MFloor => ".floor()"
  | MCeiling => ".ceiling()" | MDouble => ".double()" | MKeyValue => ".keyvalue()"
  | MBigInt => ".bigint()" | MBoolean => ".boolean()" | MInteger => ".integer()"
  | MNumber => ".number()" | MString => ".string()"
  end.

Definition dtop_name (op : dtop) : string :=
  match op with
  | DDateTime => ".datetime" | DDate => ".date" | DTime => ".time" | DTimeTZ => ".time_tz"
  | DTimestamp => ".timestamp" | DTimestampTZ => ".timestamp_tz"
  end.

(* Node.priority() *)
Definition step_prio (s : step) : nat :=
  match s with
  | SBin op _ _ => binop_prio op
  | SUn UPlus _ | SUn UMinus _ => 5%nat
  | _ => 6%nat
  end.
Definition chain_prio (c : chain) : nat :=
  match c with x :: _ => step_prio x | [] => 6%nat end.

(* regexFlags.String() *)
Definition regex_flags_string (f : Z) : string :=
  if f =? 0 then ""
  else
    " flag """ ++
    (if 0 <? Z.land f reICase then "i" else "") ++
    (if 0 <? Z.land f reDotAll then "s" else "") ++
    (if 0 <? Z.land f reMLine then "m" else "") ++
    (if 0 <? Z.land f reWSpace then "x" else "") ++
    (if 0 <? Z.land f reQuote then "q" else "") ++ """".

Definition hex_digit (d : Z) : Z := if d <? 10 then 48 + d else 87 + d.

(* fmt "%x" for 0x10000 <= r <= 0x10FFFF *)
Definition hex_min56 (r : Z) : list Z :=
  ((if r <? 1048576 then [] else [hex_digit (r / 1048576 mod 16)]) ++
  [hex_digit (r / 65536 mod 16); hex_digit (r / 4096 mod 16); hex_digit (r / 256 mod 16);
   hex_digit (r / 16 mod 16); hex_digit (r mod 16)])%list.

Section WithLib.
Variable L : GoLib.

(* one rune of ast.quote *)
Definition quote_rune (r : Z) : list Z :=
  if r =? 7 then [92; 120; 48; 55]                                    (* \x07 *)
  else if (65535 <? r) && negb (is_print L r) then
    ([92; 117; 123] ++ hex_min56 r ++ [125])%list                            (* \u{...} *)
  else (* strconv.Quote(string(r)) without the quotes *)
  if (r =? 34) || (r =? 92) then [92; r]
  else if is_print L r then encode_rune r
  else if r =? 8 then [92; 98]
  else if r =? 12 then [92; 102]
  else if r =? 10 then [92; 110]
  else if r =? 13 then [92; 114]
  else if r =? 9 then [92; 116]
  else if r =? 11 then [92; 118]
  else if (r <? 32) || (r =? 127) then [92; 120; hex_digit (r / 16); hex_digit (r mod 16)]
  else [92; 117; hex_digit (r / 4096 mod 16); hex_digit (r / 256 mod 16);
        hex_digit (r / 16 mod 16); hex_digit (r mod 16)].

Definition quote_bytes (s : string) : list Z :=
  (34 :: flat_map quote_rune (runes_of s) ++ [34])%list.

Definition quote (s : string) : string := str_of_bytes (quote_bytes s).

Definition opt_int (o : option Z) : string :=
  match o with Some z => format_int L z | None => "" end.

Definition print_any (first last : Z) : string :=
  if (first =? 0) && (last =? max_uint32) then "**"
  else if first =? last then
    (if first =? max_uint32 then "**{last}" else "**{" ++ format_int L first ++ "}")
  else if first =? max_uint32 then "**{last to " ++ format_int L last ++ "}"
  else if last =? max_uint32 then "**{" ++ format_int L first ++ " to last}"
  else "**{" ++ format_int L first ++ " to " ++ format_int L last ++ "}".

Definition paren (b : bool) (s : string) : string := if b then "(" ++ s ++ ")" else s.

(* writeTo of one node, without its next.  [has_next]: n.Next() != nil. *)
Fixpoint print_step (s : step) (has_next inKey withParens : bool) {struct s} : string :=
  let pc := fix pc (c : list step) (inKey withParens : bool) {struct c} : string :=
    match c with
    | [] => ""
    | x :: r =>
        print_step x (match r with [] => false | _ => true end) inKey withParens ++ pc r true true
    end in
  match s with
  | SConst k => (match k with CAnyKey => if inKey then "." else "" | _ => "" end) ++ const_name k
  | SStr t => quote t
  | SVar t => "$" ++ quote t
  | SKey t => (if inKey then "." else "") ++ quote t
  | SInteger z => paren has_next (format_int L z)
  | SNumeric f => paren has_next (format_float_json L f)
  | SMeth m => meth_name m
  | SDecimal p sc =>
      ".decimal(" ++ opt_int p ++ (match sc with Some z => "," ++ format_int L z | None => "" end) ++ ")"
  | SDt op tmpl prec =>
      match tmpl, prec with
      | Some t, _ => dtop_name op ++ "(" ++ quote t ++ ")"
      | None, Some z => dtop_name op ++ "(" ++ format_int L z ++ ")"
      | None, None => dtop_name op ++ "()"
      end
  | SAny first last => (if inKey then "." else "") ++ print_any first last
  | SBin op l r =>
      paren withParens
        (pc l false (Nat.leb (chain_prio l) (binop_prio op)) ++ " " ++ binop_name op ++ " " ++
         pc r false (Nat.leb (chain_prio r) (binop_prio op)))
  | SUn UExists a => "exists (" ++ pc a false false ++ ")"
  | SUn UNot a => "!(" ++ pc a false false ++ ")"
  | SUn UFilter a => "?(" ++ pc a false false ++ ")"
  | SUn UIsUnknown a => "(" ++ pc a false false ++ ") is unknown"
  | SUn UPlus a => paren withParens ("+" ++ pc a false (Nat.leb (chain_prio a) 5%nat))
  | SUn UMinus a => paren withParens ("-" ++ pc a false (Nat.leb (chain_prio a) 5%nat))
  | SRegex a pat fl =>
      paren withParens
        (pc a false (Nat.leb (chain_prio a) 6%nat) ++ " like_regex " ++ quote pat ++ regex_flags_string fl)
  | SIndex subs =>
      "[" ++
      (fix ps (l : list (list step * option (list step))) (first : bool) : string :=
         match l with
         | [] => ""
         | (a, b) :: r =>
             (if first then "" else ",") ++ pc a false false ++
             (match b with Some c => " to " ++ pc c false false | None => "" end) ++ ps r false
         end) subs true ++ "]"
  end.

Fixpoint print_chain (c : chain) (inKey withParens : bool) : string :=
  match c with
  | [] => ""
  | x :: r =>
      print_step x (match r with [] => false | _ => true end) inKey withParens ++ print_chain r true true
  end.

(* AST.String() *)
Definition print_path (p : path) : string :=
  (if p_lax p then "" else "strict ") ++ print_chain (p_root p) false true.

End WithLib.
