(* PathAPI.v — the thin wrappers of path/path.go, as the delegations they are.
   Error values are modelled by their wrapping class: which sentinel
   (ErrPath / ErrScan) wraps which parser error kind. *)
From SJ Require Import lib.Base lib.Utf8 lib.GoLib model.Json model.Ast model.Lexer model.Parser model.Printer.
Local Open Scope string_scope.

Inductive api_err :=
| ApiPathParse (k : err_kind)    (* fmt.Errorf("%w: %w", ErrPath, err) with err wrapping parser.ErrParse *)
| ApiScanParse (k : err_kind)    (* fmt.Errorf("%w: %w", ErrScan, err) with err wrapping parser.ErrParse *)
| ApiScanType.                   (* ErrScan: unable to scan type %T into Path *)

(* errors.Is(err, parser.ErrParse) *)
Definition wraps_parse (e : api_err) : option err_kind :=
  match e with ApiPathParse k | ApiScanParse k => Some k | ApiScanType => None end.
(* errors.Is(err, ErrScan) / errors.Is(err, ErrPath) *)
Definition is_err_scan (e : api_err) : bool :=
  match e with ApiScanParse _ | ApiScanType => true | _ => false end.
Definition is_err_path (e : api_err) : bool :=
  match e with ApiPathParse _ => true | _ => false end.

(* what a database/sql driver can hand to Scan *)
Inductive scan_src := SrcNil | SrcString (s : string) | SrcBytes (s : string) | SrcOther.

Section WithLib.
Variable L : GoLib.

(* path.Parse *)
Definition parse_api (s : string) : path + api_err :=
  match parse L s with POk p => inl p | PErr k => inr (ApiPathParse k) end.

(* path.MustParse: panics with the parser's error *)
Definition must_parse (s : string) : outcome path :=
  match parse L s with POk p => Ret p | PErr _ => Panic "parser" end.

(* Path.Scan.  [cur] is the receiver's value before the call (None: the
   zero Path); the result is its value after a nil-error return. *)
Definition scan (cur : option path) (src : scan_src) : option path + api_err :=
  match src with
  | SrcNil => inl cur
  | SrcString s | SrcBytes s =>
      match s with
      | EmptyString => inl cur
      | _ => match parse L s with
             | POk p => inl (Some p)
             | PErr k => inr (ApiScanParse k)
             end
      end
  | SrcOther => inr ApiScanType
  end.

(* Path.String / Value / MarshalBinary / MarshalText *)
Definition path_string (p : path) : string := print_path L p.
Definition value (p : path) : string := path_string p.
Definition marshal_binary (p : path) : string := path_string p.
Definition marshal_text (p : path) : string := marshal_binary p.

(* Path.UnmarshalBinary / UnmarshalText: no special case for empty input *)
Definition unmarshal_binary (data : string) : path + api_err :=
  match parse L data with POk p => inl p | PErr k => inr (ApiScanParse k) end.
Definition unmarshal_text (data : string) : path + api_err := unmarshal_binary data.

Definition is_predicate (p : path) : bool := p_pred p.
Definition pg_index_operator (p : path) : string := if is_predicate p then "@@" else "@?".

End WithLib.
