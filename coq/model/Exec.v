(* Exec.v — the executor of path/exec, transliterated function by function
   (same names, same (status, error) pairs, same two modes of [found]: None is
   the nil list of Exists, Some l the collecting list), with the executor's
   mutable fields as an explicit state and every save/restore written out.
   Recursion through the three mutually recursive entry points goes through
   [self] (open recursion); [run] closes it with fuel.

   This file follows /repo at the commit the harness builds; the "fix:" commits
   listed in /verif/known_findings.json are incorporated. *)
From Coq Require Import Floats.SpecFloat.
From SJ Require Import lib.Base model.Json model.Ast model.ExecLib model.Leaf.

Inductive status := SOK | SNotFound | SFailed.
Definition st_failed (s : status) : bool := match s with SFailed => true | _ => false end.
Definition st_ok (s : status) : bool := match s with SOK => true | _ => false end.

Definition found_t := option (list json).

(* Immutable per-call data (Executor fields that are never written after newExec
   / execute, the option set, and the context). *)
Record env := mkenv {
  e_lax : bool;
  e_root : json;
  e_vars : list (string * json);
  e_vars_tag : Z;                  (* identity of the Vars map, for keyvalue ids *)
  e_useTZ : bool;
  e_cancel_at : option nat         (* Some k: the k-th poll of ctx.Done() (0-based) and all later see it closed *)
}.

(* Mutable Executor fields, plus two counters of the model. *)
Record st := mkst {
  cur : json;                      (* exec.current *)
  last_size : Z;                   (* exec.innermostArraySize *)
  ign : bool;                      (* exec.ignoreStructuralErrors *)
  verbose : bool;                  (* exec.verbose *)
  base_addr : Z;                   (* exec.baseObject.addr *)
  base_id : Z;                     (* exec.baseObject.id *)
  last_id : Z;                     (* exec.lastGeneratedObjectID *)
  polls : nat;                     (* number of times ctx.Done() has been polled *)
  next_tag : Z                     (* identity for the next object keyvalue() allocates *)
}.

Definition set_cur s v := mkst v (last_size s) (ign s) (verbose s) (base_addr s) (base_id s) (last_id s) (polls s) (next_tag s).
Definition set_last_size s z := mkst (cur s) z (ign s) (verbose s) (base_addr s) (base_id s) (last_id s) (polls s) (next_tag s).
Definition set_ign s b := mkst (cur s) (last_size s) b (verbose s) (base_addr s) (base_id s) (last_id s) (polls s) (next_tag s).
Definition set_verbose s b := mkst (cur s) (last_size s) (ign s) b (base_addr s) (base_id s) (last_id s) (polls s) (next_tag s).
Definition set_base s a i := mkst (cur s) (last_size s) (ign s) (verbose s) a i (last_id s) (polls s) (next_tag s).
Definition set_last_id s i := mkst (cur s) (last_size s) (ign s) (verbose s) (base_addr s) (base_id s) i (polls s) (next_tag s).
Definition set_next_tag s t := mkst (cur s) (last_size s) (ign s) (verbose s) (base_addr s) (base_id s) (last_id s) (polls s) t.
Definition tick s := mkst (cur s) (last_size s) (ign s) (verbose s) (base_addr s) (base_id s) (last_id s) (S (polls s)) (next_tag s).

Record resp := mkr { r_st : status; r_err : option err; r_found : found_t }.
Record presp := mkp { p_out : pout; p_err : option err }.

Inductive req :=
| RItem (n : chain) (v : json) (found : found_t) (unwrap : bool)          (* executeItemOptUnwrapTarget *)
| RAny (n : chain) (vs : list json) (found : found_t) (level first last : Z) (ignFlag unwrapNext : bool)  (* executeAnyItem *)
| RBool (n : chain) (v : json) (canHaveNext : bool).                      (* executeBoolItem *)

Inductive ans := AItem (r : resp) | ABool (p : presp).

Definition M (A : Type) := st -> outcome (A * st).
Definition ret {A} (a : A) : M A := fun s => Ret (a, s).

Definition fappend (found : found_t) (v : json) : found_t :=
  match found with Some l => Some (l ++ [v]) | None => None end.
Definition fnil (found : found_t) : bool := match found with None => true | Some _ => false end.
Definition flen (found : found_t) : nat := match found with Some l => List.length l | None => O end.
Definition cnil (c : chain) : bool := match c with [] => true | _ => false end.

Definition addr_of (v : json) : Z := match v with JArr t _ | JObj t _ => t | _ => 0 end.
Definition tenTen : Z := 10000000000.

Section Body.
Variable L : ExecLib.
Variable E : env.
Variable self : req -> st -> outcome (ans * st).

Definition lax : bool := e_lax E.
Definition strict : bool := negb (e_lax E).

Definition callItem (n : chain) (v : json) (found : found_t) (unwrap : bool) : M resp :=
  fun s => do x <- self (RItem n v found unwrap) s;
           match x with (AItem r, s') => Ret (r, s') | _ => Panic "self: item expected" end.
Definition callAny (n : chain) (vs : list json) (found : found_t) (level first last : Z) (ignFlag unwrapNext : bool) : M resp :=
  fun s => do x <- self (RAny n vs found level first last ignFlag unwrapNext) s;
           match x with (AItem r, s') => Ret (r, s') | _ => Panic "self: item expected" end.
Definition callBool (n : chain) (v : json) (canHaveNext : bool) : M presp :=
  fun s => do x <- self (RBool n v canHaveNext) s;
           match x with (ABool p, s') => Ret (p, s') | _ => Panic "self: bool expected" end.

(* ctx.Done() closed?  ctx.Err() != nil? *)
Definition done_now (s : st) : bool :=
  match e_cancel_at E with Some k => (k <=? polls s)%nat | None => false end.
Definition ctx_err (s : st) : bool :=
  match e_cancel_at E with Some k => (k <? polls s)%nat | None => false end.

(* ---------- exec.go ---------- *)
Definition returnVerboseError (e : err) (found : found_t) : M resp :=
  fun s => if verbose s then ret (mkr SFailed (Some e) found) s else ret (mkr SFailed None found) s.

Definition returnError (e : err) (found : found_t) : M resp :=
  fun s => if verbose s || negb (is_verbose e) then ret (mkr SFailed (Some e) found) s
           else ret (mkr SFailed None found) s.

(* ---------- execution.go ---------- *)
Definition executeItem (n : chain) (v : json) (found : found_t) : M resp := callItem n v found lax.

(* executeNextItem: every call site passes next = cur.Next() (or nil), so the
   three-way case analysis of the Go function collapses to this. *)
Definition executeNextItem (next : chain) (v : json) (found : found_t) : M resp :=
  match next with
  | [] => ret (mkr SOK None (fappend found v))
  | _ => executeItem next v found
  end.

Definition unwrapInto (acc : list json) (item : json) : list json :=
  match item with JArr _ es => acc ++ es | _ => acc ++ [item] end.

(* executeItemOptUnwrapResult; [found] must be Some when unwrap is requested *)
Definition executeItemOptUnwrapResult (n : chain) (v : json) (unwrap : bool) (found : found_t) : M resp :=
  if unwrap && lax then
    fun s =>
      do (r, s1) <- executeItem n v (Some []) s;
      if st_failed (r_st r) then Ret (mkr (r_st r) (r_err r) found, s1)
      else
        let seq := match r_found r with Some l => l | None => [] end in
        Ret (mkr SOK None (option_map (fun acc => fold_left unwrapInto seq acc) found), s1)
  else executeItem n v found.

Definition executeItemOptUnwrapResultSilent (n : chain) (v : json) (unwrap : bool) (found : found_t) : M resp :=
  fun s =>
    let vb := verbose s in
    do (r, s1) <- executeItemOptUnwrapResult n v unwrap found (set_verbose s false);
    Ret (r, set_verbose s1 vb).

(* ---------- predicate.go ---------- *)
Section Pairs.
  Variable cb : json -> json -> outcome (pout * option err).
  (* the double loop of executePredicate; hasErr/found are the Go locals *)
  Fixpoint pairs_inner (l : json) (rs : list json) (hasErr fnd : bool)
    : outcome (option presp * bool * bool) :=
    match rs with
    | [] => Ret (None, hasErr, fnd)
    | r :: rs' =>
        do (res, e) <- cb l r;
        match e with
        | Some e' => Ret (Some (mkp PUnknown (Some e')), hasErr, fnd)
        | None =>
            match res with
            | PUnknown => if strict then Ret (Some (mkp PUnknown None), hasErr, fnd)
                          else pairs_inner l rs' true fnd
            | PTrue => if negb strict then Ret (Some (mkp PTrue None), hasErr, fnd)
                       else pairs_inner l rs' hasErr true
            | PFalse => pairs_inner l rs' hasErr fnd
            end
        end
    end.
  Fixpoint pairs_outer (ls rs : list json) (hasErr fnd : bool) : outcome presp :=
    match ls with
    | [] => Ret (if fnd then mkp PTrue None else if hasErr then mkp PUnknown None else mkp PFalse None)
    | l :: ls' =>
        do (x, fnd') <- pairs_inner l rs hasErr fnd;
        let (early, hasErr') := x in
        match early with
        | Some p => Ret p
        | None => pairs_outer ls' rs hasErr' fnd'
        end
    end.
End Pairs.

Definition executePredicate (left : chain) (right : option chain) (v : json) (unwrapRightArg : bool)
           (cb : json -> json -> outcome (pout * option err)) : M presp :=
  fun s =>
    do (rl, s1) <- executeItemOptUnwrapResultSilent left v true (Some []) s;
    if st_failed (r_st rl) then Ret (mkp PUnknown (r_err rl), s1) else
    let lSeq := match r_found rl with Some l => l | None => [] end in
    do (rr, s2) <-
       match right with
       | Some rn => executeItemOptUnwrapResultSilent rn v unwrapRightArg (Some []) s1
       | None => Ret (mkr SOK None (Some [JNull]), s1)
       end;
    if st_failed (r_st rr) then Ret (mkp PUnknown (r_err rr), s2) else
    let rSeq := match r_found rr with Some l => l | None => [] end in
    do p <- pairs_outer cb lSeq rSeq false false;
    Ret (p, s2).

(* ---------- boolean.go ---------- *)
Definition executeBinaryBoolItem (op : binop) (l r : chain) (v : json) : M presp :=
  match op with
  | BAnd =>
      fun s =>
        do (p1, s1) <- callBool l v false s;
        if match p_out p1 with PFalse => true | _ => false end || is_some (p_err p1)
        then Ret (p1, s1)
        else
          do (p2, s2) <- callBool r v false s1;
          match p_out p2 with
          | PTrue => Ret (mkp (p_out p1) (p_err p2), s2)
          | _ => Ret (p2, s2)
          end
  | BOr =>
      fun s =>
        do (p1, s1) <- callBool l v false s;
        if match p_out p1 with PTrue => true | _ => false end || is_some (p_err p1)
        then Ret (p1, s1)
        else
          do (p2, s2) <- callBool r v false s1;
          match p_out p2 with
          | PFalse => Ret (mkp (p_out p1) (p_err p1), s2)
          | _ => Ret (p2, s2)
          end
  | BEq | BNe | BLt | BGt | BLe | BGe =>
      executePredicate l (Some r) v true (compareItems L (e_useTZ E) op)
  | BStartsWith =>
      executePredicate l (Some r) v false (fun a b => Ret (executeStartsWith a b))
  | _ => ret (mkp PUnknown (Some (EInvalid "invalid jsonpath boolean operator")))
  end.

Definition executeUnaryBoolItem (op : unop) (a : chain) (v : json) : M presp :=
  match op with
  | UNot =>
      fun s =>
        do (p, s1) <- callBool a v false s;
        match p_out p with
        | PUnknown => Ret (p, s1)
        | PTrue => Ret (mkp PFalse None, s1)
        | PFalse => Ret (mkp PTrue None, s1)
        end
  | UIsUnknown =>
      fun s =>
        do (p, s1) <- callBool a v false s;
        if is_some (p_err p) && ctx_err s1 then Ret (mkp PUnknown (p_err p), s1)
        else Ret (mkp (predFrom (match p_out p with PUnknown => true | _ => false end)) None, s1)
  | UExists =>
      if strict then
        fun s =>
          do (r, s1) <- executeItemOptUnwrapResultSilent a v false (Some []) s;
          if st_failed (r_st r) then Ret (mkp PUnknown (r_err r), s1)
          else match r_found r with
               | Some (_ :: _) => Ret (mkp PTrue None, s1)
               | _ => Ret (mkp PFalse None, s1)
               end
      else
        fun s =>
          do (r, s1) <- executeItemOptUnwrapResultSilent a v false None s;
          match r_st r with
          | SFailed => Ret (mkp PUnknown (r_err r), s1)
          | SOK => Ret (mkp PTrue None, s1)
          | SNotFound => Ret (mkp PFalse None, s1)
          end
  | _ => ret (mkp PUnknown (Some (EInvalid "invalid jsonpath boolean operator")))
  end.

Definition executeBoolItem (n : chain) (v : json) (canHaveNext : bool) : M presp :=
  match n with
  | [] => ret (mkp PUnknown (Some (EInvalid "invalid boolean jsonpath item type")))
  | stp :: next =>
      if negb canHaveNext && negb (cnil next)
      then ret (mkp PUnknown (Some (EInvalid "boolean jsonpath item cannot have next item")))
      else
        match stp with
        | SBin op l r => executeBinaryBoolItem op l r v
        | SUn op a => executeUnaryBoolItem op a v
        | SRegex a pat flags =>
            executePredicate a None v false (fun x _ => Ret (executeLikeRegex L pat flags x))
        | _ => ret (mkp PUnknown (Some (EInvalid "invalid boolean jsonpath item type")))
        end
  end.

Definition appendBoolResult (next : chain) (found : found_t) (p : presp) : M resp :=
  match p_err p with
  | Some e => ret (mkr SFailed (Some e) found)
  | None =>
      if cnil next && fnil found then ret (mkr SOK None found)
      else
        let value := match p_out p with
                     | PUnknown => JNull
                     | PTrue => JBool true
                     | PFalse => JBool false
                     end in
        executeNextItem next value found
  end.

Definition executeNestedBoolItem (n : chain) (v : json) : M presp :=
  fun s =>
    let prev := cur s in
    do (p, s1) <- callBool n v false (set_cur s v);
    Ret (p, set_cur s1 prev).

(* ---------- op.go: executeAnyItem ---------- *)
Definition collection (v : json) : list json :=
  match v with
  | JObj _ l => xl_members L l
  | JArr _ l => l
  | _ => []
  end.
Definition isCollection (v : json) : bool :=
  match v with JObj _ _ | JArr _ _ => true | _ => false end.

Definition exit_now (r : resp) (found : found_t) : bool :=
  st_failed (r_st r) || (st_ok (r_st r) && fnil found).

(* the for-loop of executeAnyItem.  [res] carries the Go locals res, err and
   the current contents of found; [dirty] says whether a deferred restore of
   ignoreStructuralErrors has been registered. Returns (result, returned early). *)
Fixpoint anyLoop (n : chain) (vs : list json) (level first last : Z) (ignFlag unwrapNext : bool)
         (res : resp) (dirty : bool) (s : st) : outcome (resp * bool * st) :=
  match vs with
  | [] => Ret (res, dirty, s)
  | v :: rest =>
      let found := r_found res in
      do (x1, s1) <-
         (if (level >=? first) || ((first =? max_uint32) && (last =? max_uint32) && negb (isCollection v))
          then
            match n with
            | _ :: _ =>
                let s' := if ignFlag then set_ign s true else s in
                do (r1, s1) <- callItem n v found unwrapNext s';
                Ret ((r1, dirty || ignFlag, exit_now r1 found), s1)
            | [] =>
                match found with
                | Some _ => Ret ((mkr SOK (r_err res) (fappend found v), dirty, false), s)
                | None => Ret ((mkr SOK None None, dirty, true), s)
                end
            end
          else Ret ((res, dirty, false), s));
      let '(r1, dirty1, stop1) := x1 in
      if stop1 then Ret (r1, dirty1, s1) else
      do (x2, s2) <-
         (if level <? last
          then
            do (r2, s2) <- callAny n (collection v) (r_found r1) (level + 1) first last ignFlag unwrapNext s1;
            Ret ((r2, exit_now r2 found), s2)
          else Ret ((r1, false), s1));
      let '(r2, stop2) := x2 in
      if stop2 then Ret (r2, dirty1, s2) else
      anyLoop n rest level first last ignFlag unwrapNext r2 dirty1 s2
  end.

Definition executeAnyItem (n : chain) (vs : list json) (found : found_t) (level first last : Z)
           (ignFlag unwrapNext : bool) : M resp :=
  fun s =>
    if level >? last then Ret (mkr SNotFound None found, s) else
    let saved := ign s in
    let size := flen found in
    do (x, s1) <- anyLoop n vs level first last ignFlag unwrapNext (mkr SNotFound None found) false s;
    let (res, dirty) := x in
    let s1' := if dirty then set_ign s1 saved else s1 in
    (* "Always return OK if items were found" (only on the fall-through exit; an
       early return keeps its status — but an early return is failed, or OK) *)
    if negb (fnil found) && negb (st_failed (r_st res)) && negb (is_some (r_err res))
       && (size <? flen (r_found res))%nat
    then Ret (mkr SOK (r_err res) (r_found res), s1')
    else Ret (res, s1').

Definition executeItemUnwrapTargetArray (n : chain) (v : json) (found : found_t) : M resp :=
  match v with
  | JArr _ es => callAny n es found 1 1 1 false false
  | _ => ret (mkr SFailed (Some (EInvalid "invalid json array value type")) found)
  end.

(* ---------- const.go / literal.go ---------- *)
Definition execLiteral (next : chain) (v : json) (found : found_t) : M resp :=
  if cnil next && fnil found then ret (mkr SOK None found) else executeNextItem next v found.

Definition execVariable (name : string) (next : chain) (found : found_t) : M resp :=
  match lookup name (e_vars E) with
  | Some val =>
      fun s =>
        let ba := base_addr s in let bi := base_id s in
        do (r, s1) <- executeNextItem next val found (set_base s (e_vars_tag E) 1);
        Ret (r, set_base s1 ba bi)
  | None => ret (mkr SFailed (Some (EExec "could not find jsonpath variable")) found)
  end.

Definition execKeyNode (key : string) (n next : chain) (v : json) (found : found_t) (unwrap : bool) : M resp :=
  fun s =>
    let structural :=
      if negb (ign s)
      then returnVerboseError (EVerbose "jsonpath member accessor can only be applied to an object") found s
      else Ret (mkr SNotFound None found, s) in
    match v with
    | JObj _ l =>
        match lookup key l with
        | Some val => executeNextItem next val found s
        | None =>
            if negb (ign s) then
              if negb (verbose s) then Ret (mkr SFailed None found, s)
              else Ret (mkr SFailed (Some (EVerbose "JSON object does not contain key")) found, s)
            else structural
        end
    | JArr _ es => if unwrap then callAny n es found 1 1 1 false false s else structural
    | _ => structural
    end.

Definition execAnyKey (n next : chain) (v : json) (found : found_t) (unwrap : bool) : M resp :=
  fun s =>
    let structural :=
      if negb (ign s)
      then returnVerboseError (EVerbose "jsonpath wildcard member accessor can only be applied to an object") found s
      else Ret (mkr SNotFound None found, s) in
    match v with
    | JObj _ l => callAny next (xl_members L l) found 1 1 1 false lax s
    | JArr _ _ => if unwrap then executeItemUnwrapTargetArray n v found s else structural
    | _ => structural
    end.

Definition execAnyArray (next : chain) (v : json) (found : found_t) : M resp :=
  fun s =>
    match v with
    | JArr _ es => callAny next es found 1 1 1 false lax s
    | _ =>
        if lax then executeNextItem next v found s
        else if negb (ign s)
        then returnVerboseError (EVerbose "jsonpath wildcard array accessor can only be applied to an array") found s
        else Ret (mkr SNotFound None found, s)
    end.

Definition execLastConst (next : chain) (found : found_t) : M resp :=
  fun s =>
    if last_size s <? 0
    then Ret (mkr SFailed (Some (EExec "evaluating jsonpath LAST outside of array subscript")) found, s)
    else if cnil next && fnil found then Ret (mkr SOK None found, s)
    else executeNextItem next (JNum (NInt (last_size s - 1))) found s.

Definition execConstNode (k : constk) (n next : chain) (v : json) (found : found_t) (unwrap : bool) : M resp :=
  match k with
  | CNull => execLiteral next JNull found
  | CTrue => execLiteral next (JBool true) found
  | CFalse => execLiteral next (JBool false) found
  | CRoot =>
      fun s =>
        let ba := base_addr s in let bi := base_id s in
        do (r, s1) <- executeNextItem next (e_root E) found (set_base s (addr_of (e_root E)) 0);
        Ret (r, set_base s1 ba bi)
  | CCurrent => fun s => executeNextItem next (cur s) found s
  | CAnyKey => execAnyKey n next v found unwrap
  | CAnyArray => execAnyArray next v found
  | CLast => execLastConst next found
  end.

(* ---------- op.go: .** ---------- *)
Definition execAnyNode (first last : Z) (next : chain) (v : json) (found : found_t) : M resp :=
  fun s =>
    let saved := ign s in
    let restore (s' : st) := if first =? 0 then set_ign s' saved else s' in
    do (x, s1) <-
       (if first =? 0 then
          do (r0, s1) <- executeNextItem next v found (set_ign s true);
          Ret ((r0, exit_now r0 found), s1)
        else Ret ((mkr SNotFound None found, false), s));
    let (r0, stop) := x in
    if stop then Ret (r0, restore s1) else
    match v with
    | JObj _ _ | JArr _ _ =>
        do (r, s2) <- callAny next (collection v) (r_found r0) 1 first last true lax s1;
        Ret (r, restore s2)
    | _ => Ret (mkr SNotFound None (r_found r0), restore s1)
    end.

(* ---------- array.go ---------- *)
Definition getArrayIndex (n : chain) (v : json) : M (Z + err) :=
  fun s =>
    do (r, s1) <- executeItem n v (Some []) s;
    if st_failed (r_st r) then
      match r_err r with
      | Some e => Ret (inr e, s1)
      | None => Ret (inr (EVerbose "jsonpath array subscript is not a single numeric value"), s1)
      end
    else
      match r_found r with
      | Some [x] => Ret (getJSONInt32 L x, s1)
      | _ => Ret (inr (EVerbose "jsonpath array subscript is not a single numeric value"), s1)
      end.

Definition execSubscript (sub : chain * option chain) (v : json) (arraySize : Z) : M ((Z * Z) + err) :=
  fun s =>
    do (fr, s1) <- getArrayIndex (fst sub) v s;
    match fr with
    | inr e => Ret (inr e, s1)
    | inl indexFrom =>
        do (tr, s2) <-
           match snd sub with
           | Some rn => getArrayIndex rn v s1
           | None => Ret (inl indexFrom, s1)
           end;
        match tr with
        | inr e => Ret (inr e, s2)
        | inl indexTo =>
            if negb (ign s2) && ((indexFrom <? 0) || (indexFrom >? indexTo) || (indexTo >=? arraySize))
            then Ret (inr (EVerbose "jsonpath array subscript is out of bounds"), s2)
            else
              let f := if indexFrom <? 0 then 0 else indexFrom in
              let t := if indexTo >=? arraySize then arraySize - 1 else indexTo in
              Ret (inl (f, t), s2)
        end
    end.

(* elements at positions from..to (already clipped into the array) *)
Definition slice (arr : list json) (from to : Z) : list json :=
  if to <? from then [] else firstn (Z.to_nat (to - from + 1)) (skipn (Z.to_nat from) arr).

(* inner loop over the selected elements: Some r = return r now *)
Fixpoint indexLoop (next : chain) (els : list json) (res : resp) (s : st) : outcome (resp * bool * st) :=
  match els with
  | [] => Ret (res, false, s)
  | v :: rest =>
      match v with
      | JNull => indexLoop next rest res s           (* if v == nil { continue } — pinned by array_test.go skip_nil *)
      | _ =>
          let found := r_found res in
          if cnil next && fnil found then Ret (mkr SOK None found, true, s)
          else
            do (r, s1) <- executeNextItem next v found s;
            if exit_now r found then Ret (r, true, s1)
            else indexLoop next rest r s1
      end
  end.

Fixpoint subsLoop (subs : list (chain * option chain)) (next : chain) (v : json) (arr : list json) (size : Z)
         (res : resp) (s : st) : outcome (resp * st) :=
  match subs with
  | [] => Ret (res, s)
  | sub :: rest =>
      do (b, s1) <- execSubscript sub v size s;
      match b with
      | inr e => returnError e (r_found res) s1
      | inl (from, to) =>
          do (x, s2) <- indexLoop next (slice arr from to) res s1;
          let (r, stop) := x in
          if stop then Ret (r, s2) else subsLoop rest next v arr size r s2
      end
  end.

Definition execArrayIndex (subs : list (chain * option chain)) (next : chain) (v : json) (found : found_t) : M resp :=
  fun s =>
    let go (arr : list json) :=
      let size := Z.of_nat (List.length arr) in
      let saved := last_size s in
      do (r, s1) <- subsLoop subs next v arr size (mkr SNotFound None found) (set_last_size s size);
      Ret (r, set_last_size s1 saved) in
    match v with
    | JArr _ es => go es
    | _ => if lax then go [v]
           else returnVerboseError (EVerbose "jsonpath array accessor can only be applied to an array") found s
    end.

(* ---------- math.go ---------- *)
Fixpoint unaryLoop (minus : bool) (next : chain) (seq : list json) (found : found_t) (res : status) (s : st)
  : outcome (resp * st) :=
  match seq with
  | [] => Ret (mkr res None found, s)
  | v :: rest =>
      let icb := if minus then intUMinus else (fun x => x) in
      let fcb := if minus then fneg else (fun x => x) in
      let early := fnil found && cnil next in
      let step (val : json) :=
        do (r, s1) <- executeNextItem next val found s;
        if st_failed (r_st r) then Ret (r, s1)
        else if st_ok (r_st r) then
          if fnil found then Ret (mkr SOK None (r_found r), s1)
          else unaryLoop minus next rest (r_found r) SOK s1
        else unaryLoop minus next rest (r_found r) res s1 in
      match v with
      | JNum (NInt z) => if early then Ret (mkr SOK None found, s) else step (JNum (NInt (icb z)))
      | JNum (NFlt f) => if early then Ret (mkr SOK None found, s) else step (JNum (NFlt (fcb f)))
      | JNum (NJs t) =>
          if early then Ret (mkr SOK None found, s)
          else match castJSONNumber L t icb fcb with
               | Some n => step (JNum n)
               | None => returnVerboseError (EVerbose "operand of unary jsonpath operator is not a numeric value") found s
               end
      | _ =>
          if early then step v      (* ok = found == nil && next == nil: the item is handed on unchanged *)
          else returnVerboseError (EVerbose "operand of unary jsonpath operator is not a numeric value") found s
      end
  end.

Definition execUnaryMathExpr (minus : bool) (a next : chain) (v : json) (found : found_t) : M resp :=
  fun s =>
    do (r, s1) <- executeItemOptUnwrapResult a v true (Some []) s;
    if st_failed (r_st r) then Ret (mkr SFailed (r_err r) found, s1) else
    let seq := match r_found r with Some l => l | None => [] end in
    unaryLoop minus next seq found SNotFound s1.

Definition execBinaryMathExpr (op : binop) (l r next : chain) (v : json) (found : found_t) : M resp :=
  fun s =>
    do (rl, s1) <- executeItemOptUnwrapResult l v true (Some []) s;
    if st_failed (r_st rl) then Ret (mkr SFailed (r_err rl) found, s1) else
    match r_found rl with
    | Some [lv] =>
        do (rr, s2) <- executeItemOptUnwrapResult r v true (Some []) s1;
        if st_failed (r_st rr) then Ret (mkr SFailed (r_err rr) found, s2) else
        match r_found rr with
        | Some [rv] =>
            match execMathOp L lv rv op with
            | MErr e => returnVerboseError e found s2
            | MOk val =>
                if cnil next && fnil found then Ret (mkr SOK None found, s2)
                else executeNextItem next (JNum val) found s2
            end
        | _ => returnVerboseError (mathOperandErr "right") found s2
        end
    | _ => returnVerboseError (mathOperandErr "left") found s1
    end.

(* ---------- method.go ----------
   Every item method except .keyvalue() is a leaf function of model/Leaf.v
   (execMethodDouble, execMethodInteger, ... executeNumberMethod,
   executeNumericItemMethod, execMethodType, execMethodSize): an array is
   unwrapped first when the method unwraps and unwrap is set, the leaf function
   computes the item or the error, and executeNextItem hands the item on. *)
Definition execLeaf (unwraps : bool) (lf : json -> leaf) (n next : chain) (v : json) (found : found_t) (unwrap : bool) : M resp :=
  if unwraps && unwrap && is_array v then executeItemUnwrapTargetArray n v found
  else match lf v with
       | LItem x => executeNextItem next x found
       | LErr e => returnError e found
       end.

(* ---------- keyvalue.go ---------- *)
Fixpoint insert_key (k : string) (l : list string) : list string :=
  match l with
  | [] => [k]
  | x :: r => match str_compare k x with Gt => x :: insert_key k r | _ => k :: l end
  end.
Definition sort_keys (l : list string) : list string := fold_right insert_key [] l.

Definition offset_of (s : st) (obj : json) : Z := Z.abs (addr_of obj - base_addr s).

Fixpoint kvLoop (keys : list string) (members : list (string * json)) (id : Z) (next : chain)
         (res : resp) (s : st) : outcome (resp * st) :=
  match keys with
  | [] => Ret (mkr (r_st res) None (r_found res), s)
  | k :: rest =>
      let found := r_found res in
      let value := match lookup k members with Some x => x | None => JNull end in
      let tag := next_tag s in
      let obj := JObj tag [("id", JNum (NInt id)); ("key", JStr k); ("value", value)]%string in
      let s' := set_base (set_last_id (set_next_tag s (tag * 2)) (last_id s + 1)) tag (last_id s + 1) in
      do (r, s1) <- executeNextItem next obj found s';
      if st_failed (r_st r) then Ret (r, s1)
      else if st_ok (r_st r) && fnil found then Ret (mkr (r_st r) None (r_found r), s1)
      else kvLoop rest members id next r s1
  end.

Definition executeKeyValueMethod (n next : chain) (v : json) (found : found_t) (unwrap : bool) : M resp :=
  let bad := returnVerboseError (EVerbose ".keyvalue() can only be applied to an object") found in
  match v with
  | JArr _ _ => if unwrap then executeItemUnwrapTargetArray n v found else bad
  | JObj _ members =>
      fun s =>
        match members with
        | [] => Ret (mkr SNotFound None found, s)
        | _ =>
            if cnil next && fnil found then Ret (mkr SOK None found, s) else
            let id := offset_of s v + base_id s * tenTen in
            let ba := base_addr s in let bi := base_id s in
            do (r, s1) <- kvLoop (sort_keys (map fst members)) members id next (mkr SOK None found) s;
            Ret (r, set_base s1 ba bi)
        end
  | _ => bad
  end.

Definition execMethodNode (m : meth) (n next : chain) (v : json) (found : found_t) (unwrap : bool) : M resp :=
  fun s =>
    match method_leaf L lax (ign s) m with
    | Some (unwraps, lf) => execLeaf unwraps lf n next v found unwrap s
    | None => executeKeyValueMethod n next v found unwrap s
    end.

(* ---------- op.go: dispatch ---------- *)
Definition is_bool_binop (op : binop) : bool :=
  match op with
  | BAnd | BOr | BEq | BNe | BLt | BGt | BLe | BGe | BStartsWith => true
  | _ => false
  end.

Definition execBoolNode (n next : chain) (v : json) (found : found_t) : M resp :=
  fun s =>
    do (p, s1) <- callBool n v true s;
    appendBoolResult next found p s1.

Definition execBinaryNode (op : binop) (l r : chain) (n next : chain) (v : json) (found : found_t) : M resp :=
  if is_bool_binop op then execBoolNode n next v found
  else execBinaryMathExpr op l r next v found.

Definition execUnaryNode (op : unop) (a : chain) (n next : chain) (v : json) (found : found_t) (unwrap : bool) : M resp :=
  match op with
  | UNot | UIsUnknown | UExists => execBoolNode n next v found
  | UFilter =>
      if unwrap && is_array v then executeItemUnwrapTargetArray n v found
      else
        fun s =>
          do (p, s1) <- executeNestedBoolItem a v s;
          match p_err p with
          | Some e => Ret (mkr SFailed (Some e) found, s1)
          | None =>
              match p_out p with
              | PTrue => executeNextItem next v found s1
              | _ => Ret (mkr SNotFound None found, s1)
              end
          end
  | UPlus => execUnaryMathExpr false a next v found
  | UMinus => execUnaryMathExpr true a next v found
  end.

(* executeItemOptUnwrapTarget: the poll of ctx.Done(), then the type switch *)
Definition executeItemOptUnwrapTarget (n : chain) (v : json) (found : found_t) (unwrap : bool) : M resp :=
  fun s0 =>
    let d := done_now s0 in
    let s := tick s0 in
    if d then Ret (mkr SFailed (Some ECancel) found, s) else
    match n with
    | [] => Ret (mkr SFailed (Some (EInvalid "Unknown node type")) found, s)
    | stp :: next =>
        match stp with
        | SConst k => execConstNode k n next v found unwrap s
        | SStr x => execLiteral next (JStr x) found s
        | SInteger z => execLiteral next (JNum (NInt z)) found s
        | SNumeric f => execLiteral next (JNum (NFlt f)) found s
        | SVar name => execVariable name next found s
        | SKey k => execKeyNode k n next v found unwrap s
        | SBin op l r => execBinaryNode op l r n next v found s
        | SUn op a => execUnaryNode op a n next v found unwrap s
        | SRegex _ _ _ => execBoolNode n next v found s
        | SMeth m => execMethodNode m n next v found unwrap s
        | SDecimal p sc => execLeaf true (leaf_number L (Some (p, sc))) n next v found unwrap s
        | SDt op tmpl prec => execLeaf true (leaf_datetime L (e_useTZ E) op tmpl prec) n next v found unwrap s
        | SAny first last => execAnyNode first last next v found s
        | SIndex subs => execArrayIndex subs next v found s
        end
    end.

Definition body (r : req) : st -> outcome (ans * st) :=
  fun s =>
    match r with
    | RItem n v found unwrap =>
        do (x, s') <- executeItemOptUnwrapTarget n v found unwrap s; Ret (AItem x, s')
    | RAny n vs found level first last ignFlag unwrapNext =>
        do (x, s') <- executeAnyItem n vs found level first last ignFlag unwrapNext s; Ret (AItem x, s')
    | RBool n v canHaveNext =>
        do (x, s') <- executeBoolItem n v canHaveNext s; Ret (ABool x, s')
    end.

End Body.

Fixpoint run (L : ExecLib) (E : env) (fuel : nat) : req -> st -> outcome (ans * st) :=
  match fuel with
  | O => fun _ _ => OutOfFuel
  | S k => fun r s => body L E (fun r' s' => run L E k r' s') r s   (* eta-expanded so that extraction unfolds it on demand *)
  end.

(* ---------- exec.go: entry points ---------- *)
Record opts := mkopts {
  o_vars : list (string * json);
  o_vars_tag : Z;
  o_silent : bool;
  o_useTZ : bool;
  o_cancel_at : option nat;
  o_next_tag : Z                   (* identity given to the first object keyvalue() allocates; later ones double it *)
}.

Definition mkEnv (p : path) (doc : json) (o : opts) : env :=
  mkenv (p_lax p) doc (o_vars o) (o_vars_tag o) (o_useTZ o) (o_cancel_at o).

Definition newExec (p : path) (doc : json) (o : opts) : st :=
  mkst doc (-1) (p_lax p) (negb (o_silent o)) 0 0 1 O (o_next_tag o).

(* query() *)
Definition query (L : ExecLib) (fuel : nat) (p : path) (doc : json) (o : opts) (vals : found_t) : outcome (resp * st) :=
  let E := mkEnv p doc o in
  let s := newExec p doc o in
  let self := run L E fuel in
  if negb (p_lax p) && fnil vals then
    do (r, s1) <- executeItem E self (p_root p) doc (Some []) s;
    if st_failed (r_st r) then Ret (mkr (r_st r) (r_err r) None, s1)
    else match r_found r with
         | Some (_ :: _) => Ret (mkr SOK None None, s1)
         | _ => Ret (mkr SNotFound None None, s1)
         end
  else executeItem E self (p_root p) doc vals s.

Inductive apierr := AErr (e : err) | ANull.
Inductive qres := QItems (l : list json) | QErr (e : apierr).
Inductive fres := FItem (v : option json) | FErr (e : apierr).
Inductive bres := BVal (b : bool) | BErr (e : apierr).

(* execute() + Query *)
Definition Query (L : ExecLib) (fuel : nat) (p : path) (doc : json) (o : opts) : outcome qres :=
  do (r, _) <- query L fuel p doc o (Some []);
  match r_err r with
  | Some e => Ret (QErr (AErr e))
  | None => Ret (QItems (match r_found r with Some l => l | None => [] end))
  end.

Definition First (L : ExecLib) (fuel : nat) (p : path) (doc : json) (o : opts) : outcome fres :=
  do (r, _) <- query L fuel p doc o (Some []);
  match r_err r with
  | Some e => Ret (FErr (AErr e))
  | None => Ret (FItem (match r_found r with Some (x :: _) => Some x | _ => None end))
  end.

Definition Exists (L : ExecLib) (fuel : nat) (p : path) (doc : json) (o : opts) : outcome bres :=
  do (r, _) <- query L fuel p doc o None;
  match r_err r with
  | Some e => Ret (BErr (AErr e))
  | None => if st_failed (r_st r) then Ret (BErr ANull) else Ret (BVal (st_ok (r_st r)))
  end.

Definition Match (L : ExecLib) (fuel : nat) (p : path) (doc : json) (o : opts) : outcome bres :=
  do (r, _) <- query L fuel p doc o (Some []);
  match r_err r with
  | Some e => Ret (BErr (AErr e))
  | None =>
      match r_found r with
      | Some [JNull] => Ret (BErr ANull)
      | Some [JBool b] => Ret (BVal b)
      | _ => if negb (o_silent o) then Ret (BErr (AErr (EVerbose "single boolean result is expected")))
             else Ret (BErr ANull)
      end
  end.

Definition ExistsOrMatch (L : ExecLib) (fuel : nat) (p : path) (doc : json) (o : opts) : outcome bres :=
  if p_pred p then Match L fuel p doc o else Exists L fuel p doc o.

(* number of polls of ctx.Done() made by an entry point (for the cancellation sweep) *)
Definition polls_of (L : ExecLib) (fuel : nat) (p : path) (doc : json) (o : opts) (vals : found_t) : outcome nat :=
  do (_, s) <- query L fuel p doc o vals; Ret (polls s).
