(* Json.v — the values the executor works on (Go: nil, bool, int64, float64,
   json.Number, string, []any, map[string]any, and the five *types.X datetimes). *)
From Coq Require Import Floats.SpecFloat.
From SJ Require Import lib.Base.

Definition f64 := spec_float.

Inductive num :=
| NInt (z : Z)              (* Go int64 *)
| NFlt (f : f64)            (* Go float64 *)
| NJs (s : string).         (* encoding/json.Number: the literal text *)

Inductive dtkind := KDate | KTime | KTimeTZ | KTimestamp | KTimestampTZ.

(* A *types.X value: a time.Time whose location is offset-only.
   dt_sec/dt_nsec: the absolute instant (Unix seconds, nanoseconds 0..999999999);
   dt_off: seconds east of UTC of its (fixed) location. *)
Record datetime := mkdt { dt_kind : dtkind; dt_sec : Z; dt_nsec : Z; dt_off : Z }.

(* Containers carry a tag standing for their heap identity (Go: the address of
   the slice/map).  Only .keyvalue() ids read it; equality of results ignores it. *)
Inductive json :=
| JNull
| JBool (b : bool)
| JNum (n : num)
| JStr (s : string)
| JArr (tag : Z) (l : list json)
| JObj (tag : Z) (l : list (string * json))
| JDt (d : datetime).

Definition dtkind_eqb (a b : dtkind) : bool :=
  match a, b with
  | KDate, KDate | KTime, KTime | KTimeTZ, KTimeTZ
  | KTimestamp, KTimestamp | KTimestampTZ, KTimestampTZ => true
  | _, _ => false
  end.

Fixpoint lookup (k : string) (l : list (string * json)) : option json :=
  match l with
  | [] => None
  | (k', v) :: r => if String.eqb k k' then Some v else lookup k r
  end.

Fixpoint json_size (v : json) : nat :=
  match v with
  | JArr _ l => S (fold_right (fun x a => json_size x + a)%nat O l)
  | JObj _ l => S (fold_right (fun x a => json_size (snd x) + a)%nat O l)
  | _ => 1%nat
  end.

Fixpoint json_depth (v : json) : nat :=
  match v with
  | JArr _ l => S (fold_right (fun x a => Nat.max (json_depth x) a) O l)
  | JObj _ l => S (fold_right (fun x a => Nat.max (json_depth (snd x)) a) O l)
  | _ => O
  end.

Definition is_array (v : json) : bool := match v with JArr _ _ => true | _ => false end.

(* Structural induction principle that reaches inside the lists. *)
Section JsonInd.
  Variable P : json -> Prop.
  Hypothesis Hnull : P JNull.
  Hypothesis Hbool : forall b, P (JBool b).
  Hypothesis Hnum : forall n, P (JNum n).
  Hypothesis Hstr : forall s, P (JStr s).
  Hypothesis Harr : forall t l, Forall P l -> P (JArr t l).
  Hypothesis Hobj : forall t l, Forall (fun kv => P (snd kv)) l -> P (JObj t l).
  Hypothesis Hdt : forall d, P (JDt d).
  Fixpoint json_ind' (v : json) : P v :=
    match v with
    | JNull => Hnull
    | JBool b => Hbool b
    | JNum n => Hnum n
    | JStr s => Hstr s
    | JArr t l => Harr t l ((fix go (l : list json) : Forall P l :=
                               match l with
                               | [] => Forall_nil _
                               | x :: r => Forall_cons _ (json_ind' x) (go r)
                               end) l)
    | JObj t l => Hobj t l ((fix go (l : list (string * json)) : Forall (fun kv => P (snd kv)) l :=
                               match l with
                               | [] => Forall_nil _
                               | x :: r => Forall_cons _ (json_ind' (snd x)) (go r)
                               end) l)
    | JDt d => Hdt d
    end.
End JsonInd.
