(* GoTime.v — the parts of Go's package time (go1.23) that path/types and
   path/exec/datetime.go use, as total Gallina functions.

     zones        Location.lookup (offset, start, end), FixedZone, UTC
     gtime        a time.Time: absolute instant (Unix sec, nsec) + location
     accessors    Year/Month/Day/Hour/Minute/Second/Nanosecond/Zone
     go_date      time.Date (field normalisation + the two-lookup zone algorithm)
     go_in        Time.In
     go_round     Time.Round
     go_parse     time.Parse for layouts made of the elements the repo uses
     go_format    Time.Format/AppendFormat for the same elements

   Everything is validated against the real library by tools/dtvec.
   Stdlib only, no axioms. *)
From SJ Require Import lib.Base model.Civil.
Open Scope Z_scope.

Local Notation "a +++ b" := (String.append a b) (at level 60, right associativity).

(* ------------------------------------------------------------------ *)
(* Zones                                                               *)
(* ------------------------------------------------------------------ *)

(* ZTable: transitions (unix second from which the offset applies, offset
   seconds east of UTC), ascending.  init_off applies before the first one. *)
Inductive zone :=
| ZFixed (off : Z)
| ZTable (init_off : Z) (trans : list (Z * Z)).

Definition zUTC : zone := ZFixed 0.

(* zoneinfo.go: alpha = -1<<63, omega = 1<<63 - 1 *)
Definition alpha : Z := -9223372036854775808.
Definition omega : Z := 9223372036854775807.

(* Location.lookup restricted to (offset, start, end): the zone in effect at
   sec is the last transition with when <= sec. *)
Fixpoint ztab_lookup (cur_off cur_start : Z) (l : list (Z * Z)) (sec : Z) : Z * Z * Z :=
  match l with
  | [] => (cur_off, cur_start, omega)
  | (w, o) :: r => if sec <? w then (cur_off, cur_start, w) else ztab_lookup o w r sec
  end.

Definition zone_lookup (z : zone) (sec : Z) : Z * Z * Z :=
  match z with
  | ZFixed off => (off, alpha, omega)
  | ZTable i tr => ztab_lookup i alpha tr sec
  end.

Definition zone_offset_at (z : zone) (unix : Z) : Z :=
  let '(off, _, _) := zone_lookup z unix in off.

(* The tail of time.Date: given the wall clock reading expressed as seconds
   "as if UTC", find the instant.

     _, offset, start, end, _ := loc.lookup(unix)
     if offset != 0 {
         utc := unix - int64(offset)
         if utc < start || utc >= end { _, offset, _, _, _ = loc.lookup(utc) }
         unix -= int64(offset)
     }                                                                     *)
Definition zone_local_to_unix (z : zone) (local : Z) : Z :=
  let '(off, st, en) := zone_lookup z local in
  if off =? 0 then local
  else
    let utc := local - off in
    let off' := if (utc <? st) || (en <=? utc) then zone_offset_at z utc else off in
    local - off'.

(* ------------------------------------------------------------------ *)
(* time.Time                                                           *)
(* ------------------------------------------------------------------ *)

Record gtime := mkg { g_sec : Z; g_nsec : Z; g_loc : zone }.

Definition secs_per_day : Z := 86400.
Definition nanos_per_sec : Z := 1000000000.

(* Time.abs(): seconds of the wall clock reading in the time's location *)
Definition g_off (t : gtime) : Z := zone_offset_at (g_loc t) (g_sec t).   (* Time.Zone() offset *)
Definition g_local (t : gtime) : Z := g_sec t + g_off t.
Definition g_days (t : gtime) : Z := g_local t / secs_per_day.
Definition g_sod (t : gtime) : Z := g_local t mod secs_per_day.
Definition g_ymd (t : gtime) : Z * Z * Z := civil_from_days (g_days t).
Definition g_year (t : gtime) : Z := let '(y, _, _) := g_ymd t in y.
Definition g_month (t : gtime) : Z := let '(_, m, _) := g_ymd t in m.
Definition g_day (t : gtime) : Z := let '(_, _, d) := g_ymd t in d.
Definition g_hour (t : gtime) : Z := g_sod t / 3600.
Definition g_minute (t : gtime) : Z := g_sod t mod 3600 / 60.
Definition g_second (t : gtime) : Z := g_sod t mod 60.

(* time.Date.  Go normalises month into year, then nsec→sec→min→hour→day by
   floor division, then adds everything up linearly; days_from_civil is linear
   in the day, so the cascade collapses to one sum. *)
Definition go_date (y mo d h mi s ns : Z) (loc : zone) : gtime :=
  let m0 := mo - 1 in
  let y' := y + m0 / 12 in
  let m' := m0 mod 12 + 1 in
  let s' := s + ns / nanos_per_sec in
  let ns' := ns mod nanos_per_sec in
  let local := days_from_civil y' m' d * secs_per_day + h * 3600 + mi * 60 + s' in
  mkg (zone_local_to_unix loc local) ns' loc.

Definition go_in (t : gtime) (loc : zone) : gtime := mkg (g_sec t) (g_nsec t) loc.

(* Time.Compare: instants only *)
Definition inst_compare (s1 n1 s2 n2 : Z) : Z :=
  if s1 <? s2 then -1 else if s2 <? s1 then 1
  else if n1 <? n2 then -1 else if n2 <? n1 then 1 else 0.

Definition go_compare (a b : gtime) : Z :=
  inst_compare (g_sec a) (g_nsec a) (g_sec b) (g_nsec b).

(* Time.Add of a nanosecond count *)
Definition go_add_ns (t : gtime) (delta : Z) : gtime :=
  let n := g_nsec t + delta in
  mkg (g_sec t + n / nanos_per_sec) (n mod nanos_per_sec) (g_loc t).

(* Seconds from Go's internal epoch (January 1, year 1) to the Unix epoch. *)
Definition unix_to_internal : Z := 62135596800.

(* Time.Round(d).  div(t, d) returns r = (time since year 1 in ns) mod d with
   a non-negative remainder (the neg branch turns the truncated remainder into
   the floor one); lessThanHalf(r, d) is r + r < d. *)
Definition go_round (t : gtime) (d : Z) : gtime :=
  if d <=? 0 then t
  else
    let total := (g_sec t + unix_to_internal) * nanos_per_sec + g_nsec t in
    let r := total mod d in
    if r + r <? d then go_add_ns t (- r) else go_add_ns t (d - r).

(* time.Second / time.Duration(math.Pow10(precision)) for precision >= 0:
   10^(9-p) for p <= 9; the integer division gives 0 from p = 10 on (and the
   float→int64 conversion of 1e19.. or +Inf gives a value whose quotient is
   still 0), and Round(0) returns t unchanged. *)
Definition prec_duration (p : Z) : Z :=
  if p <? 0 then 0 else if p <=? 9 then 10 ^ (9 - p) else 0.

(* ------------------------------------------------------------------ *)
(* Characters                                                          *)
(* ------------------------------------------------------------------ *)

Definition is_digit (c : ascii) : bool :=
  let n := Z_of_ascii c in (48 <=? n) && (n <=? 57).
Definition digit_val (c : ascii) : Z := Z_of_ascii c - 48.
Definition digit_char (n : Z) : ascii := ascii_of_Z (48 + n).

Definition ch_space : ascii := " "%char.
Definition ch_colon : ascii := ":"%char.
Definition ch_dash : ascii := "-"%char.
Definition ch_plus : ascii := "+"%char.
Definition ch_T : ascii := "T"%char.
Definition ch_Z : ascii := "Z"%char.
Definition ch_dot : ascii := "."%char.
Definition ch_comma : ascii := ","%char.
Definition ch_zero : ascii := "0"%char.

Definition comma_or_period (c : ascii) : bool := Ascii.eqb c ch_dot || Ascii.eqb c ch_comma.

(* ------------------------------------------------------------------ *)
(* Layouts                                                             *)
(* ------------------------------------------------------------------ *)

(* The std chunks that occur in the repo's layouts (format.go nextStdChunk):
     "2006" stdLongYear, "01" stdZeroMonth, "02" stdZeroDay, "15" stdHour,
     "04" stdZeroMinute, "05" stdZeroSecond, ".999999999" stdFracSecond9,
     "Z07" / "Z07:00" / "Z07:00:00" stdISO8601{Short,Colon,ColonSeconds}TZ,
     "-07:00" stdNumColonTZ, and the one-byte literals - : T and space.

   LSecFrac stands for "05" followed EITHER by ".999999999" in the layout OR
   by nothing: Parse treats both the same way (the stdZeroSecond case parses
   an implicit [.,]digits fraction itself unless the next chunk is a
   stdFracSecond, in which case the stdFracSecond9 case parses it with the
   same rule).  Format only ever sees it in layouts with ".999999999". *)
Inductive tzform := TZShort | TZColon | TZColonSec.

Inductive litem :=
| LLit (c : ascii)
| LYear | LMonth | LDay | LHour | LMin
| LSecFrac
| LTZ (f : tzform)        (* Z07, Z07:00, Z07:00:00 *)
| LNumColonTZ.            (* -07:00 *)

Definition lay_date_items : list litem := [LYear; LLit ch_dash; LMonth; LLit ch_dash; LDay].
Definition lay_time_items : list litem := [LHour; LLit ch_colon; LMin; LLit ch_colon; LSecFrac].

Definition lay_date : list litem := lay_date_items.                        (* "2006-01-02" *)
Definition lay_time : list litem := lay_time_items.                        (* "15:04:05" and "15:04:05.999999999" *)
Definition lay_timetz (f : tzform) : list litem := lay_time_items ++ [LTZ f].   (* "15:04:05[.999999999]Z07.." *)
Definition lay_timetz_out : list litem := lay_time_items ++ [LNumColonTZ]. (* "15:04:05.999999999-07:00" *)
Definition lay_ts (sep : ascii) : list litem :=                            (* "2006-01-02T15:04:05[.999999999]" *)
  lay_date_items ++ [LLit sep] ++ lay_time_items.
Definition lay_tstz (sep : ascii) (f : tzform) : list litem := lay_ts sep ++ [LTZ f].
Definition lay_tstz_out : list litem := lay_ts ch_T ++ [LNumColonTZ].

(* ------------------------------------------------------------------ *)
(* Parse                                                               *)
(* ------------------------------------------------------------------ *)

Definition str_empty (s : string) : bool :=
  match s with EmptyString => true | _ => false end.

(* getnum(s, fixed): one or two digits (fixed: exactly two) *)
Definition getnum (s : string) (fixed : bool) : option (Z * string) :=
  match s with
  | String c1 r1 =>
      if is_digit c1 then
        match r1 with
        | String c2 r2 =>
            if is_digit c2 then Some (digit_val c1 * 10 + digit_val c2, r2)
            else if fixed then None else Some (digit_val c1, r1)
        | EmptyString => if fixed then None else Some (digit_val c1, r1)
        end
      else None
  | EmptyString => None
  end.

Fixpoint cutspace (s : string) : string :=
  match s with
  | String c r => if Ascii.eqb c ch_space then cutspace r else s
  | EmptyString => s
  end.

(* skip(value, prefix) for a one-byte prefix.  A space in the layout accepts
   an empty value or any non-empty run of spaces. *)
Definition skip_char (c : ascii) (v : string) : option string :=
  if Ascii.eqb c ch_space then
    match v with
    | EmptyString => Some v
    | String c0 _ => if Ascii.eqb c0 ch_space then Some (cutspace v) else None
    end
  else
    match v with
    | String c0 r => if Ascii.eqb c0 c then Some r else None
    | EmptyString => None
    end.

(* the maximal run of digits at the front of s *)
Fixpoint take_digits (s : string) : string * string :=
  match s with
  | String c r =>
      if is_digit c then let '(d, rest) := take_digits r in (String c d, rest) else (EmptyString, s)
  | EmptyString => (EmptyString, s)
  end.

(* parseNanoseconds on sep ++ digits: the first nine digits, scaled to
   nanoseconds; further digits are dropped (truncation). *)
Fixpoint frac_val (k : nat) (s : string) : Z :=
  match k, s with
  | S k', String c r => digit_val c * 10 ^ (Z.of_nat k') + frac_val k' r
  | _, _ => 0
  end.

(* optional [.,]digits+ after the seconds; returns (nsec, rest) *)
Definition parse_frac (v : string) : Z * string :=
  match v with
  | String c0 (String c1 r1) =>
      if comma_or_period c0 && is_digit c1 then
        let '(ds, rest) := take_digits (String c1 r1) in (frac_val 9 ds, rest)
      else (0, v)
  | _ => (0, v)
  end.

Record pfields := mkpf {
  pf_year : Z; pf_month : Z; pf_day : Z;
  pf_hour : Z; pf_min : Z; pf_sec : Z; pf_nsec : Z;
  pf_z : bool;          (* z = UTC was set by a literal "Z" *)
  pf_zoff : Z           (* zoneOffset, -1 = unset (sic: also what "-00:00:01" yields) *)
}.

Definition pf_init : pfields := mkpf 0 (-1) (-1) 0 0 0 0 false (-1).

Definition set_year f v := mkpf v (pf_month f) (pf_day f) (pf_hour f) (pf_min f) (pf_sec f) (pf_nsec f) (pf_z f) (pf_zoff f).
Definition set_month f v := mkpf (pf_year f) v (pf_day f) (pf_hour f) (pf_min f) (pf_sec f) (pf_nsec f) (pf_z f) (pf_zoff f).
Definition set_day f v := mkpf (pf_year f) (pf_month f) v (pf_hour f) (pf_min f) (pf_sec f) (pf_nsec f) (pf_z f) (pf_zoff f).
Definition set_hour f v := mkpf (pf_year f) (pf_month f) (pf_day f) v (pf_min f) (pf_sec f) (pf_nsec f) (pf_z f) (pf_zoff f).
Definition set_min f v := mkpf (pf_year f) (pf_month f) (pf_day f) (pf_hour f) v (pf_sec f) (pf_nsec f) (pf_z f) (pf_zoff f).
Definition set_secfrac f s n := mkpf (pf_year f) (pf_month f) (pf_day f) (pf_hour f) (pf_min f) s n (pf_z f) (pf_zoff f).
Definition set_z f := mkpf (pf_year f) (pf_month f) (pf_day f) (pf_hour f) (pf_min f) (pf_sec f) (pf_nsec f) true (pf_zoff f).
Definition set_zoff f v := mkpf (pf_year f) (pf_month f) (pf_day f) (pf_hour f) (pf_min f) (pf_sec f) (pf_nsec f) (pf_z f) v.

(* stdLongYear: exactly four digits (value[0:4] through atoi, first byte a digit) *)
Definition parse_year (v : string) : option (Z * string) :=
  match v with
  | String a (String b (String c (String d r))) =>
      if is_digit a && is_digit b && is_digit c && is_digit d
      then Some (digit_val a * 1000 + digit_val b * 100 + digit_val c * 10 + digit_val d, r)
      else None
  | _ => None
  end.

(* two bytes that must both be digits: getnum(s[i:i+2], true) *)
Definition two_digits (a b : ascii) : option Z :=
  if is_digit a && is_digit b then Some (digit_val a * 10 + digit_val b) else None.

Definition sign_of (c : ascii) : option Z :=
  if Ascii.eqb c ch_plus then Some 1 else if Ascii.eqb c ch_dash then Some (-1) else None.

Definition mk_zoff (sg hr mm ss : Z) : option Z :=
  (* the range tests use > : 24 hours, 60 minutes, 60 seconds are accepted *)
  if (24 <? hr) || (60 <? mm) || (60 <? ss) then None
  else Some (sg * ((hr * 60 + mm) * 60 + ss)).

(* numeric zone (after the "Z" test failed) *)
Definition parse_numtz (f : tzform) (v : string) : option (Z * string) :=
  match f with
  | TZShort =>
      match v with
      | String sg (String h1 (String h2 r)) =>
          match sign_of sg, two_digits h1 h2 with
          | Some s, Some hr => match mk_zoff s hr 0 0 with Some z => Some (z, r) | None => None end
          | _, _ => None
          end
      | _ => None
      end
  | TZColon =>
      match v with
      | String sg (String h1 (String h2 (String c1 (String m1 (String m2 r))))) =>
          if Ascii.eqb c1 ch_colon then
            match sign_of sg, two_digits h1 h2, two_digits m1 m2 with
            | Some s, Some hr, Some mm =>
                match mk_zoff s hr mm 0 with Some z => Some (z, r) | None => None end
            | _, _, _ => None
            end
          else None
      | _ => None
      end
  | TZColonSec =>
      match v with
      | String sg (String h1 (String h2 (String c1 (String m1 (String m2
          (String c2 (String s1 (String s2 r)))))))) =>
          if Ascii.eqb c1 ch_colon && Ascii.eqb c2 ch_colon then
            match sign_of sg, two_digits h1 h2, two_digits m1 m2, two_digits s1 s2 with
            | Some s, Some hr, Some mm, Some ss =>
                match mk_zoff s hr mm ss with Some z => Some (z, r) | None => None end
            | _, _, _, _ => None
            end
          else None
      | _ => None
      end
  end.

Definition parse_item (it : litem) (f : pfields) (v : string) : option (pfields * string) :=
  match it with
  | LLit c => match skip_char c v with Some v' => Some (f, v') | None => None end
  | LYear => match parse_year v with Some (y, v') => Some (set_year f y, v') | None => None end
  | LMonth =>
      match getnum v true with
      | Some (m, v') => if (m <=? 0) || (12 <? m) then None else Some (set_month f m, v')
      | None => None
      end
  | LDay =>
      (* any two-digit day here; validated against month/year at the end *)
      match getnum v true with Some (d, v') => Some (set_day f d, v') | None => None end
  | LHour =>
      match getnum v false with
      | Some (h, v') => if 24 <=? h then None else Some (set_hour f h, v')
      | None => None
      end
  | LMin =>
      match getnum v true with
      | Some (m, v') => if 60 <=? m then None else Some (set_min f m, v')
      | None => None
      end
  | LSecFrac =>
      match getnum v true with
      | Some (s, v') =>
          if 60 <=? s then None
          else let '(ns, v'') := parse_frac v' in Some (set_secfrac f s ns, v'')
      | None => None
      end
  | LTZ form =>
      match v with
      | String c r =>
          if Ascii.eqb c ch_Z then Some (set_z f, r)
          else match parse_numtz form v with
               | Some (z, v') => Some (set_zoff f z, v')
               | None => None
               end
      | EmptyString => None
      end
  | LNumColonTZ =>
      match parse_numtz TZColon v with
      | Some (z, v') => Some (set_zoff f z, v')
      | None => None
      end
  end.

Fixpoint parse_items (l : list litem) (f : pfields) (v : string) : option pfields :=
  match l with
  | [] => if str_empty v then Some f else None          (* else ": extra text" *)
  | it :: l' =>
      match parse_item it f v with
      | Some (f', v') => parse_items l' f' v'
      | None => None
      end
  end.

(* the tail of parse(): defaults, day validation, zone resolution *)
Definition finish_parse (f : pfields) : option gtime :=
  let month := if pf_month f <? 0 then 1 else pf_month f in
  let day := if pf_day f <? 0 then 1 else pf_day f in
  if (day <? 1) || (days_in_month (pf_year f) month <? day) then None
  else
    let t := go_date (pf_year f) month day (pf_hour f) (pf_min f) (pf_sec f) (pf_nsec f) zUTC in
    if pf_z f then Some t
    else if negb (pf_zoff f =? -1) then
      (* t.addSec(-zoneOffset); t.setLoc(Local if its offset matches, else
         FixedZone("", zoneOffset)) — either way the offset is zoneOffset *)
      Some (mkg (g_sec t - pf_zoff f) (g_nsec t) (ZFixed (pf_zoff f)))
    else Some t.

Definition go_parse (layout : list litem) (v : string) : option gtime :=
  match parse_items layout pf_init v with
  | Some f => finish_parse f
  | None => None
  end.

(* ------------------------------------------------------------------ *)
(* Format                                                              *)
(* ------------------------------------------------------------------ *)

Definition str1 (c : ascii) : string := String c EmptyString.

Definition fmt2 (u : Z) : string :=
  String (digit_char (u / 10)) (String (digit_char (u mod 10)) EmptyString).
Definition fmt4 (u : Z) : string :=
  String (digit_char (u / 1000)) (String (digit_char (u / 100 mod 10))
    (String (digit_char (u / 10 mod 10)) (String (digit_char (u mod 10)) EmptyString))).

(* k digits of n, most significant first (n mod 10^k) *)
Fixpoint fixed_digits (k : nat) (n : Z) : string :=
  match k with
  | O => EmptyString
  | S k' => String (digit_char (n / 10 ^ (Z.of_nat k') mod 10)) (fixed_digits k' n)
  end.

(* number of decimal digits of u > 0 (0 for u = 0), by fuel *)
Fixpoint ndigits_fuel (fuel : nat) (u : Z) : nat :=
  match fuel with
  | O => O
  | S f => if u <=? 0 then O else S (ndigits_fuel f (u / 10))
  end.
Definition ndigits (u : Z) : nat := ndigits_fuel (S (Z.to_nat (Z.log2 u))) u.

Fixpoint zeros (n : nat) : string :=
  match n with O => EmptyString | S n' => String ch_zero (zeros n') end.

(* appendInt(b, x, width) *)
Definition append_int (x : Z) (width : Z) : string :=
  let u := Z.abs x in
  let sign := if x <? 0 then str1 ch_dash else EmptyString in
  if (width =? 2) && (u <? 100) then sign +++ fmt2 u
  else if (width =? 4) && (u <? 10000) then sign +++ fmt4 u
  else
    let n := if u =? 0 then 1%nat else ndigits u in
    sign +++ zeros (Z.to_nat (width - Z.of_nat n)) +++ fixed_digits n u.

Fixpoint strip0 (s : string) : string :=
  match s with
  | EmptyString => EmptyString
  | String c r =>
      let r' := strip0 r in
      if str_empty r' && Ascii.eqb c ch_zero then EmptyString else String c r'
  end.

(* appendNano for ".999999999": nothing for 0; else '.', nine digits, trailing
   zeros removed. *)
Definition append_nano9 (ns : Z) : string :=
  if ns =? 0 then EmptyString
  else
    let ds := strip0 (fixed_digits 9 ns) in
    if str_empty ds then EmptyString else String ch_dot ds.

(* zone := offset / 60 (truncated); sign from zone, so offsets in (-60,0) print
   as +00:00; seconds of the offset are dropped. *)
Definition fmt_numtz (colon : bool) (short : bool) (secs : option bool) (offset : Z) : string :=
  let zone0 := Z.quot offset 60 in
  let sign := if zone0 <? 0 then str1 ch_dash else str1 ch_plus in
  let zone := Z.abs zone0 in
  let absoffset := if zone0 <? 0 then - offset else offset in
  sign +++ append_int (Z.quot zone 60) 2
       +++ (if colon then str1 ch_colon else EmptyString)
       +++ (if short then EmptyString else append_int (Z.rem zone 60) 2)
       +++ match secs with
           | Some c => (if c then str1 ch_colon else EmptyString) +++ append_int (Z.rem absoffset 60) 2
           | None => EmptyString
           end.

Definition format_item (it : litem) (t : gtime) : string :=
  match it with
  | LLit c => str1 c
  | LYear => append_int (g_year t) 4
  | LMonth => append_int (g_month t) 2
  | LDay => append_int (g_day t) 2
  | LHour => append_int (g_hour t) 2
  | LMin => append_int (g_minute t) 2
  | LSecFrac => append_int (g_second t) 2 +++ append_nano9 (g_nsec t)
  | LTZ f =>
      if g_off t =? 0 then str1 ch_Z
      else match f with
           | TZShort => fmt_numtz false true None (g_off t)
           | TZColon => fmt_numtz true false None (g_off t)
           | TZColonSec => fmt_numtz true false (Some true) (g_off t)
           end
  | LNumColonTZ => fmt_numtz true false None (g_off t)
  end.

Fixpoint go_format (l : list litem) (t : gtime) : string :=
  match l with
  | [] => EmptyString
  | it :: l' => format_item it t +++ go_format l' t
  end.

(* ------------------------------------------------------------------ *)
(* Layout strings                                                      *)
(* ------------------------------------------------------------------ *)

(* nextStdChunk restricted to the chunks above: turns a layout string into
   items, or None if it contains anything else.  Used only to tie the item
   lists to the literal layout strings of the Go sources (Examples below). *)
Fixpoint str_drop (n : nat) (s : string) : string :=
  match n, s with
  | S n', String _ r => str_drop n' r
  | _, _ => s
  end.

Definition starts_with_digit (s : string) : bool :=
  match s with String c _ => is_digit c | EmptyString => false end.

Fixpoint layout_items_fuel (fuel : nat) (s : string) : option (list litem) :=
  match fuel with
  | O => None
  | S fuel' =>
      let next (n : nat) (it : litem) :=
        match layout_items_fuel fuel' (str_drop n s) with
        | Some l => Some (it :: l)
        | None => None
        end in
      match s with
      | EmptyString => Some []
      | String c _ =>
          if str_prefix "2006" s then next 4%nat LYear
          else if str_prefix "01" s then next 2%nat LMonth
          else if str_prefix "02" s then next 2%nat LDay
          else if str_prefix "15" s then next 2%nat LHour
          else if str_prefix "04" s then next 2%nat LMin
          else if str_prefix "05.999999999" s then
            (if starts_with_digit (str_drop 12 s) then None else next 12%nat LSecFrac)
          else if str_prefix "05" s then
            (* implicit fraction; a following ".0"/",9" etc. would be another chunk *)
            (match str_drop 2 s with
             | String d _ => if comma_or_period d then None else next 2%nat LSecFrac
             | EmptyString => next 2%nat LSecFrac
             end)
          else if str_prefix "Z070000" s || str_prefix "Z0700" s then None
          else if str_prefix "Z07:00:00" s then next 9%nat (LTZ TZColonSec)
          else if str_prefix "Z07:00" s then next 6%nat (LTZ TZColon)
          else if str_prefix "Z07" s then next 3%nat (LTZ TZShort)
          else if str_prefix "-070000" s || str_prefix "-07:00:00" s || str_prefix "-0700" s then None
          else if str_prefix "-07:00" s then next 6%nat LNumColonTZ
          else if str_prefix "-07" s then None
          else if Ascii.eqb c ch_dash || Ascii.eqb c ch_colon || Ascii.eqb c ch_T
                  || Ascii.eqb c ch_space then next 1%nat (LLit c)
          else None
      end
  end.

Definition layout_items (s : string) : option (list litem) :=
  layout_items_fuel (S (String.length s)) s.

(* every layout string of path/types (date.go, time.go, timetz.go,
   timestamp.go, timestamptz.go, parse_time.go) *)
Example lay_dateFormat : layout_items "2006-01-02" = Some lay_date.
Proof. reflexivity. Qed.
Example lay_timeFormat : layout_items "15:04:05.999999999" = Some lay_time.
Proof. reflexivity. Qed.
Example lay_time_plain : layout_items "15:04:05" = Some lay_time.
Proof. reflexivity. Qed.
Example lay_timeTZSecondFormat : layout_items "15:04:05.999999999Z07:00:00" = Some (lay_timetz TZColonSec).
Proof. reflexivity. Qed.
Example lay_timeTZMinuteFormat : layout_items "15:04:05.999999999Z07:00" = Some (lay_timetz TZColon).
Proof. reflexivity. Qed.
Example lay_timeTZHourFormat : layout_items "15:04:05.999999999Z07" = Some (lay_timetz TZShort).
Proof. reflexivity. Qed.
Example lay_timeTZOutputFormat : layout_items "15:04:05.999999999-07:00" = Some lay_timetz_out.
Proof. reflexivity. Qed.
Example lay_timetz_parse1 : layout_items "15:04:05Z07" = Some (lay_timetz TZShort).
Proof. reflexivity. Qed.
Example lay_timetz_parse2 : layout_items "15:04:05Z07:00" = Some (lay_timetz TZColon).
Proof. reflexivity. Qed.
Example lay_timestampFormat : layout_items "2006-01-02T15:04:05.999999999" = Some (lay_ts ch_T).
Proof. reflexivity. Qed.
Example lay_ts_parse1 : layout_items "2006-01-02T15:04:05" = Some (lay_ts ch_T).
Proof. reflexivity. Qed.
Example lay_ts_parse2 : layout_items "2006-01-02 15:04:05" = Some (lay_ts ch_space).
Proof. reflexivity. Qed.
Example lay_timestampTZSecondFormat :
  layout_items "2006-01-02T15:04:05.999999999Z07:00:00" = Some (lay_tstz ch_T TZColonSec).
Proof. reflexivity. Qed.
Example lay_timestampTZMinuteFormat :
  layout_items "2006-01-02T15:04:05.999999999Z07:00" = Some (lay_tstz ch_T TZColon).
Proof. reflexivity. Qed.
Example lay_timestampTZHourFormat :
  layout_items "2006-01-02T15:04:05.999999999Z07" = Some (lay_tstz ch_T TZShort).
Proof. reflexivity. Qed.
Example lay_timestampTZOutputFormat :
  layout_items "2006-01-02T15:04:05.999999999-07:00" = Some lay_tstz_out.
Proof. reflexivity. Qed.
Example lay_tstz_parse1 : layout_items "2006-01-02T15:04:05Z07" = Some (lay_tstz ch_T TZShort).
Proof. reflexivity. Qed.
Example lay_tstz_parse2 : layout_items "2006-01-02 15:04:05Z07" = Some (lay_tstz ch_space TZShort).
Proof. reflexivity. Qed.
Example lay_tstz_parse3 : layout_items "2006-01-02T15:04:05Z07:00" = Some (lay_tstz ch_T TZColon).
Proof. reflexivity. Qed.
Example lay_tstz_parse4 : layout_items "2006-01-02 15:04:05Z07:00" = Some (lay_tstz ch_space TZColon).
Proof. reflexivity. Qed.
