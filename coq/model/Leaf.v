(* Leaf.v — the pure "leaf" functions of path/exec: comparison of two items,
   arithmetic on two numbers, numeric conversions.  One definition per Go
   function, same names.  These are shared by the executor model (Exec.v) and
   the specification (spec/Sem.v); they get their own theorems (C12, C13, C16). *)
From Coq Require Import Floats.SpecFloat.
From SJ Require Import lib.Base model.Json model.Ast model.ExecLib.

Inductive err :=
| EVerbose (site : string)     (* wraps ErrVerbose: suppressible *)
| EExec (site : string)        (* wraps ErrExecution only: never suppressed *)
| EInvalid (site : string)     (* ErrInvalid: "should not happen" *)
| ECancel.                     (* ErrExecution wrapping ctx.Err() *)

Definition is_verbose (e : err) : bool := match e with EVerbose _ => true | _ => false end.

Inductive pout := PTrue | PFalse | PUnknown.
Definition predFrom (b : bool) : pout := if b then PTrue else PFalse.

Section WithLib.
Variable L : ExecLib.

(* json.Number.Int64 / Float64 *)
Definition js_int64 (s : string) : option Z := xl_parse_int L 10 64 s.
Definition js_float64 (s : string) : option (f64 * bool) := xl_parse_float L s.

(* ---------- compare.go ---------- *)

Definition compareNumbersZ (a b : Z) : Z := if a <? b then -1 else if a >? b then 1 else 0.
(* Go's compareNumbers on float64: NaN compares as "equal" (neither < nor >) *)
Definition compareNumbersF (a b : f64) : Z := if f_ltb a b then -1 else if f_gtb a b then 1 else 0.

(* A json.Number operand resolved the way compareNumeric does after fix d3e777b:
   Int64 first, otherwise Float64 accepting a range error (±Inf). *)
Inductive numv := VI (z : Z) | VF (f : f64).
Definition resolve_cmp (n : num) : outcome numv :=
  match n with
  | NInt z => Ret (VI z)
  | NFlt f => Ret (VF f)
  | NJs s => match js_int64 s with
             | Some z => Ret (VI z)
             | None => match js_float64 s with
                       | Some (f, _) => Ret (VF f)
                       | None => Panic "compareNumeric: invalid json.Number"
                       end
             end
  end.

(* compareNumeric: note the asymmetry for a json.Number on the right of a float64:
   only Float64() is tried there. *)
Definition compareNumeric (l r : num) : outcome Z :=
  do lv <- resolve_cmp l;
  match lv with
  | VI a =>
      do rv <- resolve_cmp r;
      match rv with
      | VI b => Ret (compareNumbersZ a b)
      | VF b => Ret (compareNumbersF (xl_of_Z L a) b)
      end
  | VF a =>
      match r with
      | NInt b => Ret (compareNumbersF a (xl_of_Z L b))
      | NFlt b => Ret (compareNumbersF a b)
      | NJs s => match js_float64 s with
                 | Some (b, _) => Ret (compareNumbersF a b)
                 | None => Panic "compareNumeric: invalid json.Number"
                 end
      end
  end.

Definition applyCompare (op : binop) (cmp : Z) : pout * option err :=
  match op with
  | BEq => (predFrom (cmp =? 0), None)
  | BNe => (predFrom (negb (cmp =? 0)), None)
  | BLt => (predFrom (cmp <? 0), None)
  | BGt => (predFrom (cmp >? 0), None)
  | BLe => (predFrom (cmp <=? 0), None)
  | BGe => (predFrom (cmp >=? 0), None)
  | _ => (PUnknown, Some (EInvalid "applyCompare"))
  end.

Definition compareBool (l r : bool) : Z :=
  if Bool.eqb l r then 0 else if l then 1 else -1.

Definition cmp_of_comparison (c : comparison) : Z :=
  match c with Lt => -1 | Eq => 0 | Gt => 1 end.

Definition is_null (v : json) : bool := match v with JNull => true | _ => false end.

(* compareItems (the predicateCallback of the six comparison operators) *)
Definition compareItems (useTZ : bool) (op : binop) (l r : json) : outcome (pout * option err) :=
  if (is_null l && negb (is_null r)) || (is_null r && negb (is_null l))
  then Ret (predFrom (binop_eqb op BNe), None)
  else
  match l with
  | JNull => Ret (applyCompare op 0)
  | JBool a => match r with
               | JBool b => Ret (applyCompare op (compareBool a b))
               | _ => Ret (PUnknown, None)
               end
  | JNum a => match r with
              | JNum b => do c <- compareNumeric a b; Ret (applyCompare op c)
              | _ => Ret (PUnknown, None)
              end
  | JStr a => match r with
              | JStr b => Ret (applyCompare op (cmp_of_comparison (str_compare a b)))
              | _ => Ret (PUnknown, None)
              end
  | JDt a => match r with
             | JDt b => match xl_dt_compare L useTZ a b with
                        | CmpOk c => Ret (applyCompare op c)
                        | CmpIncomparable => Ret (PUnknown, None)
                        | CmpTZRequired => Ret (PUnknown, Some (EExec "tzRequiredCast"))
                        | CmpInvalid => Ret (PUnknown, Some (EInvalid "unknownDateTime"))
                        end
             | _ => Ret (PUnknown, Some (EInvalid "unknownDateTime"))   (* pinned by compare_test.go: known finding *)
             end
  | JArr _ _ | JObj _ _ => Ret (PUnknown, None)
  end.

Definition executeStartsWith (whole initial : json) : pout * option err :=
  match whole, initial with
  | JStr s, JStr p => (predFrom (str_prefix p s), None)
  | _, _ => (PUnknown, None)
  end.

Definition executeLikeRegex (pat : string) (flags : Z) (v : json) : pout * option err :=
  match v with
  | JStr s => (predFrom (xl_re_match L pat flags s), None)
  | _ => (PUnknown, None)
  end.

(* ---------- math.go ---------- *)

Inductive mathres := MOk (n : num) | MErr (e : err).

Definition executeIntegerMath (lhs rhs : Z) (op : binop) : mathres :=
  match op with
  | BAdd => MOk (NInt (wrap64 (lhs + rhs)))
  | BSub => MOk (NInt (wrap64 (lhs - rhs)))
  | BMul => MOk (NInt (wrap64 (lhs * rhs)))
  | BDiv => if rhs =? 0 then MErr (EVerbose "division by zero")
            else MOk (NInt (wrap64 (Z.quot lhs rhs)))
  | BMod => if rhs =? 0 then MErr (EVerbose "division by zero")
            else MOk (NInt (Z.rem lhs rhs))
  | _ => MErr (EInvalid "not a binary math operator")
  end.

Definition executeFloatMath (lhs rhs : f64) (op : binop) : mathres :=
  match op with
  | BAdd => MOk (NFlt (fadd lhs rhs))
  | BSub => MOk (NFlt (fsub lhs rhs))
  | BMul => MOk (NFlt (fmul lhs rhs))
  | BDiv => if f_eqb rhs (S754_zero false) then MErr (EVerbose "division by zero")
            else MOk (NFlt (fdiv lhs rhs))
  | BMod => if f_eqb rhs (S754_zero false) then MErr (EVerbose "division by zero")
            else MOk (NFlt (xl_mod L lhs rhs))
  | _ => MErr (EInvalid "not a binary math operator")
  end.

Definition mathOperandErr (pos : string) : err := EVerbose ("operand is not a single numeric value: " ++ pos).

(* execMathOp on two json values *)
Definition execMathOp (left right : json) (op : binop) : mathres :=
  let on_int (a : Z) : mathres :=
    match right with
    | JNum (NInt b) => executeIntegerMath a b op
    | JNum (NFlt b) => executeFloatMath (xl_of_Z L a) b op
    | JNum (NJs s) =>
        match js_int64 s with
        | Some b => executeIntegerMath a b op
        | None => match js_float64 s with
                  | Some (b, false) => executeFloatMath (xl_of_Z L a) b op
                  | _ => MErr (mathOperandErr "right")
                  end
        end
    | _ => MErr (mathOperandErr "right")
    end in
  let on_float (a : f64) : mathres :=
    match right with
    | JNum (NFlt b) => executeFloatMath a b op
    | JNum (NInt b) => executeFloatMath a (xl_of_Z L b) op
    | JNum (NJs s) => match js_float64 s with
                      | Some (b, false) => executeFloatMath a b op
                      | _ => MErr (mathOperandErr "right")
                      end
    | _ => MErr (mathOperandErr "right")
    end in
  match left with
  | JNum (NInt a) => on_int a
  | JNum (NFlt a) => on_float a
  | JNum (NJs s) =>
      match js_int64 s with
      | Some a => on_int a
      | None => match js_float64 s with
                | Some (a, false) => on_float a
                | _ => MErr (mathOperandErr "left")
                end
      end
  | _ => MErr (mathOperandErr "left")
  end.

(* callbacks of the unary operators and numeric item methods *)
Definition intAbs (x : Z) : Z := if x <? 0 then wrap64 (- x) else x.
Definition intUMinus (x : Z) : Z := wrap64 (- x).

(* castJSONNumber *)
Definition castJSONNumber (s : string) (icb : Z -> Z) (fcb : f64 -> f64) : option num :=
  match js_int64 s with
  | Some z => Some (NInt (icb z))
  | None => match js_float64 s with
            | Some (f, false) => Some (NFlt (fcb f))
            | _ => None
            end
  end.

(* ---------- util.go ---------- *)

Definition getNodeInt32 (z : Z) (what : string) : Z + err :=
  if in_int32 z then inl z else inr (EVerbose (what ++ " is out of integer range")).

(* getJSONInt32, after fix c7285e1 *)
Definition getJSONInt32 (v : json) : Z + err :=
  let check (num : Z) : Z + err :=
    if in_int32 num then inl num else inr (EVerbose "array subscript is out of integer range") in
  let of_float (f : f64) : Z + err :=
    if f_is_inf f || f_is_nan f then inr (EVerbose "NaN or Infinity is not allowed for array subscript")
    else check (xl_to_int64 L f) in
  match v with
  | JNum (NInt z) => check z
  | JNum (NFlt f) => of_float f
  | JNum (NJs s) =>
      match js_int64 s with
      | Some z => check z
      | None => match js_float64 s with
                | Some (f, _) => of_float f
                | None => inr (EInvalid "array subscript is not a single numeric value")
                end
      end
  | _ => inr (EVerbose "array subscript is not a single numeric value")
  end.

(* ---------- method.go: pure parts ---------- *)

Definition type_name (v : json) : string :=
  match v with
  | JObj _ _ => "object"
  | JArr _ _ => "array"
  | JStr _ => "string"
  | JNum _ => "number"
  | JBool _ => "boolean"
  | JNull => "null"
  | JDt d => match dt_kind d with
             | KDate => "date"
             | KTime => "time without time zone"
             | KTimeTZ => "time with time zone"
             | KTimestamp => "timestamp without time zone"
             | KTimestampTZ => "timestamp with time zone"
             end
  end%string.

(* strings.EqualFold(val, w) for the ASCII words used by execBooleanString.
   EqualFold uses simple Unicode case folding: besides ASCII case, U+017F (long s,
   bytes C5 BF) folds to 's' and U+212A (Kelvin sign, E2 84 AA) folds to 'k'. *)
Fixpoint fold_special (s : string) : string :=
  match s with
  | EmptyString => EmptyString
  | String a r =>
      match r with
      | String b r0 =>
          if (Z_of_ascii a =? 197) && (Z_of_ascii b =? 191) then String "s"%char (fold_special r0)
          else match r0 with
               | String c r' =>
                   if (Z_of_ascii a =? 226) && (Z_of_ascii b =? 132) && (Z_of_ascii c =? 170)
                   then String "k"%char (fold_special r')
                   else String a (fold_special r)
               | EmptyString => String a (fold_special r)
               end
      | EmptyString => String a EmptyString
      end
  end.
Definition equal_fold (val w : string) : bool := String.eqb (str_lower (fold_special val)) w.

Definition execBooleanString (val : string) : option bool :=
  match val with
  | EmptyString => None
  | String c rest =>
      let size1 := match rest with EmptyString => true | _ => false end in
      let n := Z_of_ascii c in
      if (n =? 116) || (n =? 84) then          (* t T *)
        if size1 || equal_fold val "true"%string then Some true else None
      else if (n =? 102) || (n =? 70) then     (* f F *)
        if size1 || equal_fold val "false"%string then Some false else None
      else if (n =? 121) || (n =? 89) then     (* y Y *)
        if size1 || equal_fold val "yes"%string then Some true else None
      else if (n =? 110) || (n =? 78) then     (* n N *)
        if size1 || equal_fold val "no"%string then Some false else None
      else if (n =? 111) || (n =? 79) then     (* o O *)
        if equal_fold val "on"%string then Some true
        else if equal_fold val "off"%string then Some false else None
      else if n =? 49 then if size1 then Some true else None
      else if n =? 48 then if size1 then Some false else None
      else None
  end.

(* digits of the integral part that are '1'..'9' (sic: zeros are not counted) *)
Fixpoint count_nonzero_before_dot (s : string) : Z :=
  match s with
  | EmptyString => 0
  | String c r =>
      let n := Z_of_ascii c in
      if n =? 46 then 0
      else (if (49 <=? n) && (n <=? 57) then 1 else 0) + count_nonzero_before_dot r
  end.

Definition numericMaxPrecision : Z := 1000.
Definition numericMinScale : Z := -1000.
Definition numericMaxScale : Z := 1000.

(* executeDecimalMethod: p = None means .decimal() without arguments *)
Definition executeDecimalMethod (p s : option Z) (num : f64) : f64 + err :=
  match p with
  | None => inl num
  | Some pz =>
      match getNodeInt32 pz "precision" with
      | inr e => inr e
      | inl precision =>
          if (precision <? 1) || (precision >? numericMaxPrecision)
          then inr (EExec "NUMERIC precision must be between 1 and 1000")
          else
            let scale_r : Z + err :=
              match s with
              | None => inl 0
              | Some sz => match getNodeInt32 sz "scale" with
                           | inr e => inr e
                           | inl sc => if (sc <? numericMinScale) || (sc >? numericMaxScale)
                                       then inr (EExec "NUMERIC scale out of range")
                                       else inl sc
                           end
              end in
            match scale_r with
            | inr e => inr e
            | inl scale =>
                let ratio := xl_pow10 L scale in
                let rounded := fdiv (xl_round L (fmul num ratio)) ratio in
                let count := count_nonzero_before_dot (xl_format_float L rounded) in
                if (count >? 0) && (count >? precision - scale)
                then inr (EVerbose "argument of .decimal() is invalid for type numeric")
                else inl rounded
            end
      end
  end.


(* ---------- item methods as leaf functions ----------
   A leaf step maps one item to one item or to an error.  Arrays are unwrapped
   by the caller (Exec.execLeaf / Sem) before the leaf function is applied; an
   array that reaches the leaf function is an error (except .type(), .size()). *)
Inductive leaf := LItem (v : json) | LErr (e : err).

Definition nan_or_inf (f : f64) : bool := f_is_inf f || f_is_nan f.

Definition two63f : f64 := S754_finite false 4503599627370496 11.      (* 2^63 = float64(math.MaxInt64) *)
Definition mtwo63f : f64 := S754_finite true 4503599627370496 11.      (* -2^63 = float64(math.MinInt64) *)
Definition f_geb (a b : f64) : bool := match fcmp a b with Some Gt | Some Eq => true | _ => false end.
Definition bigint_out_of_range (f : f64) : bool :=
  f_geb f two63f || f_ltb f mtwo63f || f_is_inf f || f_is_nan f.

Definition leaf_type (v : json) : leaf := LItem (JStr (type_name v)).

Definition leaf_size (laxm ign : bool) (v : json) : leaf :=
  match v with
  | JArr _ es => LItem (JNum (NInt (Z.of_nat (List.length es))))
  | _ => if negb laxm && negb ign then LErr (EVerbose ".size() can only be applied to an array")
         else LItem (JNum (NInt 1))
  end.

Definition leaf_double (v : json) : leaf :=
  let finish (d : f64) := if nan_or_inf d then LErr (EVerbose "NaN or Infinity is not allowed for .double()")
                          else LItem (JNum (NFlt d)) in
  let bad := LErr (EVerbose ".double(): invalid for type double precision") in
  match v with
  | JNum (NInt z) => finish (xl_of_Z L z)
  | JNum (NFlt f) => finish f
  | JNum (NJs t) => match js_float64 t with Some (f, false) => finish f | _ => bad end
  | JStr t => match xl_parse_float L t with Some (f, false) => finish f | _ => bad end
  | _ => LErr (EVerbose ".double() can only be applied to a string or numeric value")
  end.

Definition leaf_integer (v : json) : leaf :=
  let bad := LErr (EVerbose ".integer(): invalid for type integer") in
  let finish (z : Z) := if in_int32 z then LItem (JNum (NInt z)) else bad in
  match v with
  | JNum (NInt z) => finish z
  | JNum (NFlt f) => finish (xl_to_int64 L (xl_round L f))
  | JNum (NJs t) =>
      match js_int64 t with
      | Some z => finish z
      | None => match js_float64 t with
                | Some (f, false) => finish (xl_to_int64 L (xl_round L f))
                | _ => bad
                end
      end
  | JStr t => match xl_parse_int L 10 32 t with Some z => finish z | None => bad end
  | _ => LErr (EVerbose ".integer() can only be applied to a string or numeric value")
  end.

Definition leaf_bigint (v : json) : leaf :=
  let bad := LErr (EVerbose ".bigint(): invalid for type bigint") in
  let of_float (f : f64) :=
    if bigint_out_of_range f then bad else LItem (JNum (NInt (xl_to_int64 L (xl_round L f)))) in
  match v with
  | JNum (NInt z) => LItem (JNum (NInt z))
  | JNum (NFlt f) => of_float f
  | JNum (NJs t) =>
      match js_int64 t with
      | Some z => LItem (JNum (NInt z))
      | None => match js_float64 t with
                | Some (f, false) => of_float f
                | _ => bad
                end
      end
  | JStr t => match xl_parse_int L 10 64 t with Some z => LItem (JNum (NInt z)) | None => bad end
  | _ => LErr (EVerbose ".bigint() can only be applied to a string or numeric value")
  end.

Definition leaf_string (v : json) : leaf :=
  match v with
  | JStr t => LItem (JStr t)
  | JDt d => LItem (JStr (xl_dt_string L d))
  | JNum (NJs t) => LItem (JStr t)
  | JNum (NInt z) => LItem (JStr (xl_format_int L z))
  | JNum (NFlt f) => LItem (JStr (xl_format_float L f))
  | JBool b => LItem (JStr (if b then "true" else "false"))
  | _ => LErr (EVerbose ".string() can only be applied to a boolean, string, numeric, or datetime value")
  end.

Definition leaf_boolean (v : json) : leaf :=
  let bad := LErr (EVerbose ".boolean(): invalid for type boolean") in
  let of_float (f : f64) :=
    if negb (f_eqb f (xl_trunc L f)) then bad else LItem (JBool (negb (f_eqb f (S754_zero false)))) in
  match v with
  | JBool b => LItem (JBool b)
  | JNum (NInt z) => LItem (JBool (negb (z =? 0)))
  | JNum (NFlt f) => of_float f
  | JNum (NJs t) => match js_float64 t with Some (f, false) => of_float f | _ => bad end
  | JStr t => match execBooleanString t with Some b => LItem (JBool b) | None => bad end
  | _ => LErr (EVerbose ".boolean() can only be applied to a boolean, string, or numeric value")
  end.

(* .number() (dec = None) and .decimal(p,s) (dec = Some (p,s)) *)
Definition leaf_number (dec : option (option Z * option Z)) (v : json) : leaf :=
  let bad := LErr (EVerbose ".number(): invalid for type numeric") in
  let finish (num : f64) :=
    if nan_or_inf num then LErr (EVerbose "NaN or Infinity is not allowed for .number()")
    else
      match dec with
      | None => LItem (JNum (NFlt num))
      | Some (p, sc) =>
          match executeDecimalMethod p sc num with
          | inr e => LErr e
          | inl num' => LItem (JNum (NFlt num'))
          end
      end in
  match v with
  | JNum (NFlt f) => finish f
  | JNum (NInt z) => finish (xl_of_Z L z)
  | JNum (NJs t) => match js_float64 t with Some (f, false) => finish f | _ => bad end
  | JStr t => match xl_parse_float L t with Some (f, false) => finish f | _ => bad end
  | _ => LErr (EVerbose ".number() can only be applied to a string or numeric value")
  end.

(* .abs() .floor() .ceiling() *)
Definition leaf_numeric (icb : Z -> Z) (fcb : f64 -> f64) (v : json) : leaf :=
  let bad := LErr (EVerbose "numeric item method can only be applied to a numeric value") in
  match v with
  | JNum (NInt z) => LItem (JNum (NInt (icb z)))
  | JNum (NFlt f) => LItem (JNum (NFlt (fcb f)))
  | JNum (NJs t) => match castJSONNumber t icb fcb with
                    | Some num => LItem (JNum num)
                    | None => bad
                    end
  | _ => bad
  end.

(* Some (unwraps arrays in lax mode?, leaf function); None for .keyvalue() *)
Definition method_leaf (laxm ign : bool) (m : meth) : option (bool * (json -> leaf)) :=
  match m with
  | MNumber => Some (true, leaf_number None)
  | MAbs => Some (true, leaf_numeric intAbs fabs)
  | MFloor => Some (true, leaf_numeric (fun x => x) (xl_floor L))
  | MCeiling => Some (true, leaf_numeric (fun x => x) (xl_ceil L))
  | MType => Some (false, leaf_type)
  | MSize => Some (false, leaf_size laxm ign)
  | MDouble => Some (true, leaf_double)
  | MInteger => Some (true, leaf_integer)
  | MBigInt => Some (true, leaf_bigint)
  | MString => Some (true, leaf_string)
  | MBoolean => Some (true, leaf_boolean)
  | MKeyValue => None
  end.

(* datetime methods (executeDateTimeMethod) *)
Definition leaf_datetime (useTZ : bool) (op : dtop) (tmpl : option string) (prec : option Z) (v : json) : leaf :=
  match v with
  | JStr dts =>
      let parsed : datetime + err :=
        match op, tmpl with
        | DDateTime, Some _ => inr (EExec ".datetime(template) is not yet supported")
        | _, _ =>
            let precision : Z + err :=
              match op, prec with
              | DDateTime, _ | DDate, _ => inl (-1)
              | _, None => inl (-1)
              | _, Some p =>
                  match getNodeInt32 p "time precision" with
                  | inr e => inr e
                  | inl p' => if p' <? 0 then inr (EVerbose "time precision is invalid")
                              else inl (if p' >? 6 then 6 else p')
                  end
              end in
            match precision with
            | inr e => inr e
            | inl p => match xl_parse_time L dts p with
                       | Some d => inl d
                       | None => inr (EVerbose "datetime format is not recognized")
                       end
            end
        end in
      match parsed with
      | inr e => LErr e
      | inl d =>
          match op with
          | DDateTime => LItem (JDt d)
          | _ => match xl_cast L op useTZ d with
                 | CastOk d' => LItem (JDt d')
                 | CastNotRecognized => LErr (EVerbose "datetime format is not recognized")
                 | CastTZRequired => LErr (EExec "cannot convert value without time zone usage")
                 | CastInvalid => LErr (EInvalid "datetime type not supported")
                 end
          end
      end
  | _ => LErr (EVerbose "jsonpath item datetime method can only be applied to a string")
  end.

End WithLib.
