(* ExecLib.v — the standard-library and sibling-package behaviour the executor
   calls, as a record of oracles.  Theorems are stated [forall L : ExecLib] (plus
   explicit law hypotheses where needed) — never as axioms.  The concrete
   instance used by the extracted model is built in extract/Instance.v from
   lib/F64.v, lib/Strconv.v and model/DateTime.v; regexp matching and the
   iteration order of Go maps are supplied per test case by the harness. *)
From Coq Require Import Floats.SpecFloat.
From SJ Require Import lib.Base model.Json model.Ast.

Inductive cast_result := CastOk (d : datetime) | CastNotRecognized | CastTZRequired | CastInvalid.
Inductive cmp_result := CmpOk (c : Z) | CmpIncomparable | CmpTZRequired | CmpInvalid.

Record ExecLib := mkExecLib {
  (* strconv *)
  xl_parse_float : string -> option (f64 * bool);   (* ParseFloat(s,64): None syntax error; (v,true) = ErrRange with v = ±Inf *)
  xl_parse_int : Z -> Z -> string -> option Z;      (* ParseInt(s, base, bits) *)
  xl_format_float : f64 -> string;                  (* FormatFloat(f,'f',-1,64) *)
  xl_format_int : Z -> string;                      (* FormatInt(z,10) *)
  (* float64 and math *)
  xl_of_Z : Z -> f64;                               (* float64(int64) *)
  xl_to_int64 : f64 -> Z;                           (* int64(float64), amd64 *)
  xl_mod : f64 -> f64 -> f64;                       (* math.Mod *)
  xl_floor : f64 -> f64;
  xl_ceil : f64 -> f64;
  xl_trunc : f64 -> f64;
  xl_round : f64 -> f64;                            (* math.Round *)
  xl_pow10 : Z -> f64;                              (* math.Pow10 *)
  (* regexp: pattern, path flags, subject *)
  xl_re_match : string -> Z -> string -> bool;
  (* path/types *)
  xl_parse_time : string -> Z -> option datetime;   (* types.ParseTime(ctx, s, precision) *)
  xl_cast : dtop -> bool -> datetime -> cast_result;(* exec.castX with useTZ *)
  xl_dt_compare : bool -> datetime -> datetime -> cmp_result;
  xl_dt_string : datetime -> string;
  (* maps.Values / iteration order of a Go map *)
  xl_members : list (string * json) -> list json
}.

(* float64 primitives that Coq's SpecFloat gives directly *)
Definition fadd : f64 -> f64 -> f64 := SFadd 53 1024.
Definition fsub : f64 -> f64 -> f64 := SFsub 53 1024.
Definition fmul : f64 -> f64 -> f64 := SFmul 53 1024.
Definition fdiv : f64 -> f64 -> f64 := SFdiv 53 1024.
Definition fneg : f64 -> f64 := SFopp.
Definition fabs : f64 -> f64 := SFabs.
Definition fcmp : f64 -> f64 -> option comparison := SFcompare.
Definition f_is_nan (f : f64) : bool := match f with S754_nan => true | _ => false end.
Definition f_is_inf (f : f64) : bool := match f with S754_infinity _ => true | _ => false end.
Definition f_is_zero (f : f64) : bool := match f with S754_zero _ => true | _ => false end.
Definition f_eqb (a b : f64) : bool := match fcmp a b with Some Eq => true | _ => false end.
Definition f_ltb (a b : f64) : bool := match fcmp a b with Some Lt => true | _ => false end.
Definition f_gtb (a b : f64) : bool := match fcmp a b with Some Gt => true | _ => false end.
Definition f_finite (f : f64) : bool := negb (f_is_nan f || f_is_inf f).
