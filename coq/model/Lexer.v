(* Lexer.v — transliteration of path/parser/lex.go.

   The input byte string is first cut into the sequence of results that
   successive calls of lexer.next() observe (Utf8.lex_runes_of: a valid rune,
   0 for a NUL byte, -2 for an invalid encoding).  Every scanning function
   keeps lex.go's shape: it receives the look-ahead rune [ch] (Go: the rune
   most recently returned by next(); -1 = stopTok/EOF) and the runes not yet
   read [rest], and returns the new look-ahead.  next() is therefore called
   exactly as eagerly as in Go, which decides WHICH error is first.

   Errors: lex.go appends messages to lexer.errors and only errors[0] is ever
   reported, and no code path clears the list; so "the first error recorded"
   is modelled by an exception ([LErr]).  What Go does after the first error
   (it keeps lexing in some cases) can only change the outcome through a later
   constructor panic overriding the message — see Parser.v, note (e).

   Loops that advance by one rune per iteration are structural on [rest]; the
   two loops whose body is scanEscape (identifier and string bodies), the
   comment "goto redo" and the token loop take fuel; [EOutOfFuel] is proved
   unreachable in proofs/LexProofs.v (lex_total). *)
From SJ Require Import lib.Base lib.Utf8 lib.GoLib.
Local Open Scope list_scope.
Notation length := List.length (only parsing).

Inductive lex_err :=
| EUtf8                 (* invalid UTF-8 encoding *)
| ENul                  (* invalid character NULL *)
| ENumUnderscoreStart   (* underscore disallowed at start of numeric literal *)
| ENumJunk              (* trailing junk after numeric literal *)
| ENumExpMantissa       (* 'e' exponent requires decimal mantissa *)
| ENumExpDigits         (* exponent has no digits *)
| ENumInvalidDigit      (* invalid digit %q in %s *)
| ENumSep               (* '_' must separate successive digits *)
| EComment              (* unexpected end of comment *)
| EUnterminated         (* literal not terminated *)
| EBackslashEnd         (* unexpected end after backslash *)
| ESurrogate            (* Unicode low surrogate must follow a high surrogate *)
| EHex                  (* invalid hexadecimal character sequence *)
| EUnicode              (* invalid Unicode escape sequence *)
| EU0000                (* \u0000 cannot be converted to text *)
| EInvalidChar          (* invalid character %q: a rune >= U+E000 (firstTokenNumber) where an operator could start *)
| EOutOfFuel.           (* model artefact; unreachable (lex_total) *)

Inductive lres (A : Type) : Type := LOk (a : A) | LErr (e : lex_err).
Arguments LOk {A} a.
Arguments LErr {A} e.

Definition lbind {A B} (x : lres A) (f : A -> lres B) : lres B :=
  match x with LOk a => f a | LErr e => LErr e end.

Declare Scope lex_scope.
Notation "'let*' x := a 'in' b" := (lbind a (fun x => b))
  (at level 200, x pattern, a at level 100, b at level 200) : lex_scope.
Open Scope lex_scope.

Inductive kw :=
| KTo | KNull | KTrue | KFalse | KIs | KUnknown | KExists
| KStrict | KLax | KLast | KStarts | KWith | KLikeRegex | KFlag
| KAbs | KSize | KType | KFloor | KDouble | KCeiling | KKeyvalue
| KDatetime
| KBigint | KBoolean | KDate | KDecimal | KInteger | KNumber
| KStringfunc | KTime | KTimeTz | KTimestamp | KTimestampTz.

Inductive tkind :=
| TChar (c : Z)                 (* a rune returned as its own token *)
| TIdent | TString | TNumeric | TInt | TVariable
| TOr | TAnd | TNot
| TLess | TLessEq | TEqual | TNotEqual | TGreaterEq | TGreater
| TAny
| TKw (k : kw)
| TErr (e : lex_err).            (* pseudo-token: [lex] ends the stream with it at the first error *)

Record token := mktok { tk : tkind; ttext : string }.

(* ------------------------------------------------------------------ *)
(* character classes *)

Definition is_ws (ch : Z) : bool := (ch =? 9) || (ch =? 10) || (ch =? 13) || (ch =? 32).
Definition lower (ch : Z) : Z := Z.lor 32 ch.
Definition is_decimal (ch : Z) : bool := (48 <=? ch) && (ch <=? 57).
Definition is_hex (ch : Z) : bool :=
  ((48 <=? ch) && (ch <=? 57)) || ((97 <=? lower ch) && (lower ch <=? 102)).

Definition hex_char (c : Z) : Z :=
  if (48 <=? c) && (c <=? 57) then c - 48
  else if (97 <=? c) && (c <=? 102) then c - 97 + 10
  else if (65 <=? c) && (c <=? 70) then c - 65 + 10
  else -1.

Section WithLib.
Variable L : GoLib.

(* xid.Start / xid.Continue are tables over code points; the lexer also asks
   them about stopTok = -1, for which they answer false (guarded here so that
   the loops below visibly stop at end of input). *)
Definition is_ident_rune (ch : Z) (first : bool) : bool :=
  (ch =? 95) || (ch =? 92) ||
  ((0 <=? ch) && (if first then xid_start L ch else xid_continue L ch)).

Definition is_variable_rune (ch : Z) : bool := (0 <=? ch) && xid_continue L ch.

(* ------------------------------------------------------------------ *)
(* next(): one more rune.  At end of input it returns stopTok and stays. *)

Definition check (c : Z) : lres unit :=
  if c =? 0 then LErr ENul else if c <? 0 then LErr EUtf8 else LOk tt.

Definition next (rest : list Z) : lres (Z * list Z) :=
  match rest with
  | [] => LOk (-1, [])
  | c :: r => let* _ := check c in LOk (c, r)
  end.

(* skip white space:  for ch >= 0 && whitespace&(1<<ch) != 0 { ch = l.next() } *)
Fixpoint skip_ws (ch : Z) (rest : list Z) {struct rest} : lres (Z * list Z) :=
  if is_ws ch then
    match rest with
    | [] => LOk (-1, [])
    | c :: r => let* _ := check c in skip_ws c r
    end
  else LOk (ch, rest).

(* ------------------------------------------------------------------ *)
(* numbers *)

(* digits(): returns (ch, rest, text, digSep, invalid) *)
Fixpoint digits (base : Z) (ch : Z) (rest acc : list Z) (ds inv : Z) {struct rest}
  : lres (Z * list Z * list Z * Z * Z) :=
  if (if base <=? 10 then is_decimal ch else is_hex ch) || (ch =? 95) then
    let ds' := Z.lor ds (if ch =? 95 then 2 else 1) in
    let inv' := if (base <=? 10) && negb (ch =? 95) && (48 + base <=? ch) && (inv =? 0)
                then ch else inv in
    match rest with
    | [] => LOk (-1, [], acc ++ [ch], ds', inv')
    | c :: r => let* _ := check c in digits base c r (acc ++ [ch]) ds' inv'
    end
  else LOk (ch, rest, acc, ds, inv).

(* invalidSep(x) >= 0 *)
Fixpoint invalid_sep_loop (x1_is_x : bool) (d : Z) (l : list Z) : bool :=
  match l with
  | [] => d =? 95
  | c :: r =>
      if c =? 95 then (if d =? 48 then invalid_sep_loop x1_is_x 95 r else true)
      else if is_decimal c || (x1_is_x && is_hex c) then invalid_sep_loop x1_is_x 48 r
      else if d =? 95 then true
      else invalid_sep_loop x1_is_x 46 r
  end.

Definition invalid_sep (x : list Z) : bool :=
  match x with
  | 48 :: c1 :: r =>
      let x1 := lower c1 in
      if (x1 =? 120) || (x1 =? 111) || (x1 =? 98)
      then invalid_sep_loop (x1 =? 120) 48 r
      else invalid_sep_loop false 46 x
  | _ => invalid_sep_loop false 46 x
  end.

(* scanNumber.  Returns (token kind, text, ch, rest). *)
Definition scan_number_tail (tok : tkind) (base prefix : Z) (ch : Z) (rest acc : list Z)
           (digSep inv : Z) (seen_dot : bool)
  : lres (tkind * list Z * Z * list Z) :=
  (* fractional part *)
  let* (tok, ch, rest, acc, digSep, inv) :=
     (if seen_dot then
        let* (ch, rest, acc, ds, inv) := digits base ch rest acc 0 inv in
        LOk (TNumeric, ch, rest, acc, Z.lor digSep ds, inv)
      else LOk (tok, ch, rest, acc, digSep, inv)) in
  (* exponent *)
  let e := lower ch in
  let* (tok, ch, rest, acc, digSep) :=
     (if e =? 101 then
        if negb (prefix =? 0) && negb (prefix =? 48) then LErr ENumExpMantissa
        else
          let* (ch1, rest1) := next rest in
          let acc1 := acc ++ [ch] in
          let* (ch2, rest2, acc2) :=
             (if (ch1 =? 43) || (ch1 =? 45)
              then let* (c, r) := next rest1 in LOk (c, r, acc1 ++ [ch1])
              else LOk (ch1, rest1, acc1)) in
          let* (ch3, rest3, acc3, ds, _) := digits 10 ch2 rest2 acc2 0 0 in
          if Z.land ds 1 =? 0 then LErr ENumExpDigits
          else LOk (TNumeric, ch3, rest3, acc3, Z.lor digSep ds)
      else if is_ident_rune e true then LErr ENumJunk
      else LOk (tok, ch, rest, acc, digSep)) in
  if (match tok with TInt => true | _ => false end) && negb (inv =? 0) then LErr ENumInvalidDigit
  else if negb (Z.land digSep 2 =? 0) && invalid_sep acc then LErr ENumSep
  else if is_ident_rune ch true then LErr ENumJunk
  else LOk (tok, acc, ch, rest).

Definition scan_number (ch : Z) (rest : list Z) (seen_dot : bool)
  : lres (tkind * list Z * Z * list Z) :=
  if seen_dot then
    (* the '.' has been consumed by Lex and is part of the token text *)
    scan_number_tail TNumeric 10 0 ch rest [46] 0 0 true
  else
    (* integer part *)
    let* (base, prefix, digSep, ch, rest, acc) :=
       (if ch =? 48 then
          let* (ch1, rest1) := next rest in
          let acc1 := [48] in
          let lc := lower ch1 in
          if lc =? 120 then let* (c, r) := next rest1 in LOk (16, 120, 0, c, r, acc1 ++ [ch1])
          else if lc =? 111 then let* (c, r) := next rest1 in LOk (8, 111, 0, c, r, acc1 ++ [ch1])
          else if lc =? 98 then let* (c, r) := next rest1 in LOk (2, 98, 0, c, r, acc1 ++ [ch1])
          else if lc =? 46 then LOk (8, 48, 1, ch1, rest1, acc1)
          else if ch1 =? 95 then LErr ENumUnderscoreStart
          else if is_decimal ch1 then LErr ENumJunk
          else LOk (8, 48, 1, ch1, rest1, acc1)
        else LOk (10, 0, 0, ch, rest, [])) in
    if ch =? 95 then LErr ENumUnderscoreStart
    else
      let* (ch, rest, acc, ds, inv) := digits base ch rest acc 0 0 in
      let digSep := Z.lor digSep ds in
      if Z.land digSep 1 =? 0 then LErr ENumJunk
      else if ch =? 46 then
        if negb (prefix =? 0) && negb (prefix =? 48) then LOk (TInt, acc, 46, rest)
        else
          let* (ch1, rest1) := next rest in
          scan_number_tail TInt base prefix ch1 rest1 (acc ++ [46]) digSep inv true
      else scan_number_tail TInt base prefix ch rest acc digSep inv false.

(* ------------------------------------------------------------------ *)
(* escapes.  [buf] is the list of runes written to strBuf so far
   (WriteRune / writeUnicode; the bytes are Utf8.encode_runes buf). *)

(* decodeUnicode: after '\u'.  Returns the code point; no look-ahead is read. *)
Fixpoint braces (n : nat) (rr : Z) (c : Z) (rest : list Z) : lres (Z * list Z) :=
  if c =? 125 then LOk (rr, rest)
  else match n with
       | O => LErr EUnicode
       | S n' =>
           let si := hex_char c in
           if si <? 0 then LErr EUnicode
           else let* (c', r') := next rest in braces n' (rr * 16 + si) c' r'
       end.

Definition decode_unicode (rest : list Z) : lres (Z * list Z) :=
  let* (ch, rest) := next rest in
  let* (rr, rest) :=
     (if ch =? 123 then
        let* (c, rest) := next rest in
        let* (rr, rest) := braces 6 0 c rest in
        if max_rune <? rr then LErr EUnicode else LOk (rr, rest)
      else
        let d1 := hex_char ch in
        if d1 <? 0 then LErr EUnicode else
        let* (c2, rest) := next rest in
        let d2 := hex_char c2 in
        if d2 <? 0 then LErr EUnicode else
        let* (c3, rest) := next rest in
        let d3 := hex_char c3 in
        if d3 <? 0 then LErr EUnicode else
        let* (c4, rest) := next rest in
        let d4 := hex_char c4 in
        if d4 <? 0 then LErr EUnicode else
        LOk (((d1 * 16 + d2) * 16 + d3) * 16 + d4, rest)) in
  if rr =? 0 then LErr EU0000 else LOk (rr, rest).

(* utf16.DecodeRune(r1, r2) != ReplacementChar *)
Definition utf16_pair (r1 r2 : Z) : option Z :=
  if (55296 <=? r1) && (r1 <? 56320) && (56320 <=? r2) && (r2 <? 57344)
  then Some ((r1 - 55296) * 1024 + (r2 - 56320) + 65536)
  else None.

(* scanUnicode: returns (ch, rest, buf) *)
Definition scan_unicode (rest buf : list Z) : lres (Z * list Z * list Z) :=
  let* (rr, rest) := decode_unicode rest in
  if is_surrogate rr then
    let* (c1, rest1) := next rest in
    if negb (c1 =? 92) then LErr ESurrogate else
    let* (c2, rest2) := next rest1 in
    (* Go backtracks srcPos over c2 here before reporting; the position is
       irrelevant once the error is recorded. *)
    if negb (c2 =? 117) then LErr ESurrogate else
    let* (rr1, rest3) := decode_unicode rest2 in
    match utf16_pair rr rr1 with
    | Some dec => let* (c, r) := next rest3 in LOk (c, r, buf ++ [dec])
    | None => LErr ESurrogate
    end
  else
    let* (c, r) := next rest in LOk (c, r, buf ++ [rr]).

Definition scan_hex (rest buf : list Z) : lres (Z * list Z * list Z) :=
  let* (a, rest) := next rest in
  let c1 := hex_char a in
  if c1 <? 0 then LErr EHex else
  let* (b, rest) := next rest in
  let c2 := hex_char b in
  if c2 <? 0 then LErr EHex else
  let decoded := c1 * 16 + c2 in
  if 0 <? decoded then let* (c, r) := next rest in LOk (c, r, buf ++ [decoded])
  else LErr EHex.

(* scanEscape: after the backslash *)
Definition scan_escape (rest buf : list Z) : lres (Z * list Z * list Z) :=
  let* (ch, rest) := next rest in
  let lit (r : Z) := let* (c, r') := next rest in LOk (c, r', buf ++ [r]) in
  if ch =? 98 then lit 8            (* \b *)
  else if ch =? 102 then lit 12     (* \f *)
  else if ch =? 110 then lit 10     (* \n *)
  else if ch =? 114 then lit 13     (* \r *)
  else if ch =? 116 then lit 9      (* \t *)
  else if ch =? 118 then lit 11     (* \v *)
  else if ch =? 120 then scan_hex rest buf
  else if ch =? 117 then scan_unicode rest buf
  else if ch <? 0 then LErr EBackslashEnd
  else lit ch.

(* scanString: the opening quote is the current char; returns the look-ahead
   after the closing quote and the string value *)
Fixpoint string_loop (fuel : nat) (ch : Z) (rest buf : list Z) : lres (Z * list Z * list Z) :=
  match fuel with
  | O => LErr EOutOfFuel
  | S f =>
      if ch =? 34 then let* (c, r) := next rest in LOk (c, r, buf)
      else if (ch =? 10) || (ch <? 0) then LErr EUnterminated
      else if ch =? 92 then
        let* (c, r, b) := scan_escape rest buf in string_loop f c r b
      else let* (c, r) := next rest in string_loop f c r (buf ++ [ch])
  end.

Definition scan_string (rest : list Z) : lres (Z * list Z * list Z) :=
  let* (ch, rest') := next rest in string_loop (S (length rest)) ch rest' [].

(* scanIdent *)
Fixpoint ident_loop (fuel : nat) (ch : Z) (rest buf : list Z) : lres (Z * list Z * list Z) :=
  match fuel with
  | O => LErr EOutOfFuel
  | S f =>
      if is_ident_rune ch false then
        if ch =? 92 then let* (c, r, b) := scan_escape rest buf in ident_loop f c r b
        else let* (c, r) := next rest in ident_loop f c r (buf ++ [ch])
      else LOk (ch, rest, buf)
  end.

Definition kw_table : list (string * kw) :=
  [ ("is", KIs); ("to", KTo); ("abs", KAbs); ("lax", KLax); ("date", KDate); ("flag", KFlag);
    ("last", KLast); ("size", KSize); ("time", KTime); ("type", KType); ("with", KWith);
    ("floor", KFloor); ("bigint", KBigint); ("double", KDouble); ("exists", KExists);
    ("number", KNumber); ("starts", KStarts); ("strict", KStrict); ("string", KStringfunc);
    ("boolean", KBoolean); ("ceiling", KCeiling); ("decimal", KDecimal); ("integer", KInteger);
    ("time_tz", KTimeTz); ("unknown", KUnknown); ("datetime", KDatetime); ("keyvalue", KKeyvalue);
    ("timestamp", KTimestamp); ("like_regex", KLikeRegex); ("timestamp_tz", KTimestampTz) ]%string.

Fixpoint assoc_str {A} (k : string) (l : list (string * A)) : option A :=
  match l with
  | [] => None
  | (k', v) :: r => if String.eqb k k' then Some v else assoc_str k r
  end.

(* strings.ToLower *)
Definition str_to_lower (s : string) : string :=
  string_of_runes (map (to_lower L) (runes_of s)).

Definition ident_token (ident : string) : tkind :=
  if String.eqb ident "null" then TKw KNull
  else if String.eqb ident "true" then TKw KTrue
  else if String.eqb ident "false" then TKw KFalse
  else match assoc_str (str_to_lower ident) kw_table with
       | Some k => TKw k
       | None => TIdent
       end.

Definition scan_ident (ch : Z) (rest : list Z) : lres (token * Z * list Z) :=
  let* (c, r, b) :=
     (if ch =? 92 then scan_escape rest []
      else let* (c, r) := next rest in LOk (c, r, [ch])) in
  let* (c, r, b) := ident_loop (S (S (length r))) c r b in
  let s := string_of_runes b in
  LOk (mktok (ident_token s) s, c, r).

(* scanVariable: the '$' is the current char *)
Fixpoint var_loop (ch : Z) (rest buf : list Z) {struct rest} : lres (Z * list Z * list Z) :=
  if is_variable_rune ch then
    match rest with
    | [] => LOk (-1, [], buf ++ [ch])
    | c :: r => let* _ := check c in var_loop c r (buf ++ [ch])
    end
  else LOk (ch, rest, buf).

Definition scan_variable (rest : list Z) : lres (token * Z * list Z) :=
  let* (ch, rest') := next rest in
  if ch =? 34 then
    let* (c, r, b) := scan_string rest' in LOk (mktok TVariable (string_of_runes b), c, r)
  else if is_variable_rune ch then
    let* (c, r, b) := var_loop ch rest' [] in LOk (mktok TVariable (string_of_runes b), c, r)
  else LOk (mktok (TChar 36) "$", ch, rest').

(* scanComment: current char is the '*' after '/' *)
Fixpoint comment_loop (ch : Z) (rest : list Z) {struct rest} : lres (Z * list Z) :=
  if ch <? 0 then LErr EComment
  else match rest with
       | [] => LErr EComment
       | c :: r =>
           let* _ := check c in
           if (ch =? 42) && (c =? 47) then next r else comment_loop c r
       end.

Definition scan_comment (rest : list Z) : lres (Z * list Z) :=
  let* (ch, rest') := next rest in comment_loop ch rest'.

(* scanOperator *)
Definition scan_operator (ch : Z) (rest : list Z) : lres (token * Z * list Z) :=
  let* (nx, rest') := next rest in
  let one (k : tkind) := LOk (mktok k (string_of_runes [ch]), nx, rest') in
  let two (k : tkind) :=
    let* (c, r) := next rest' in LOk (mktok k (string_of_runes [ch; nx]), c, r) in
  if ch =? 61 then (if nx =? 61 then two TEqual else one (TChar ch))
  else if ch =? 62 then (if nx =? 61 then two TGreaterEq else one TGreater)
  else if ch =? 60 then
    (if nx =? 61 then two TLessEq else if nx =? 62 then two TNotEqual else one TLess)
  else if ch =? 33 then (if nx =? 61 then two TNotEqual else one TNot)
  else if ch =? 38 then (if nx =? 38 then two TAnd else one (TChar ch))
  else if ch =? 124 then (if nx =? 124 then two TOr else one (TChar ch))
  else if ch =? 42 then (if nx =? 42 then two TAny else one (TChar ch))
  else one (TChar ch).

(* Lex: one token.  None = stopTok (end of input). *)
Fixpoint lex_tok (fuel : nat) (ch : Z) (rest : list Z) : lres (option token * Z * list Z) :=
  match fuel with
  | O => LErr EOutOfFuel
  | S f =>
      let* (ch, rest) := skip_ws ch rest in
      if is_ident_rune ch true then
        let* (t, c, r) := scan_ident ch rest in LOk (Some t, c, r)
      else if is_decimal ch then
        let* (k, txt, c, r) := scan_number ch rest false in
        LOk (Some (mktok k (str_of_bytes txt)), c, r)
      else if ch <? 0 then LOk (None, ch, rest)
      else if ch =? 34 then
        let* (c, r, b) := scan_string rest in LOk (Some (mktok TString (string_of_runes b)), c, r)
      else if ch =? 36 then
        let* (t, c, r) := scan_variable rest in LOk (Some t, c, r)
      else if ch =? 47 then
        let* (c, r) := next rest in
        if c =? 42 then let* (c', r') := scan_comment r in lex_tok f c' r'
        else LOk (Some (mktok (TChar 47) "/"), c, r)
      else if ch =? 46 then
        let* (c, r) := next rest in
        if is_decimal c then
          let* (k, txt, c', r') := scan_number c r true in
          LOk (Some (mktok k (str_of_bytes txt)), c', r')
        else LOk (Some (mktok (TChar 46) "."), c, r)
      else if 57344 <=? ch then LErr EInvalidChar   (* ch >= firstTokenNumber *)
      else
        let* (t, c, r) := scan_operator ch rest in LOk (Some t, c, r)
  end.

(* goyacc's pathlex1 takes a returned "char" in 57346..57393 for the token
   with that number.  Since Lex rejects every rune >= 0xE000 that would reach
   scanOperator, and the other single-rune tokens are '$', '/', '.', no such
   char is ever returned: there is nothing to remap. *)

(* The whole token stream: the tokens up to end of input, or up to the first
   error, which is then the last element (TErr e). *)
Definition err_tok (e : lex_err) : token := mktok (TErr e) "".

Fixpoint lex_all (fuel : nat) (ch : Z) (rest : list Z) : list token :=
  match fuel with
  | O => [err_tok EOutOfFuel]
  | S f =>
      match lex_tok (S (length rest)) ch rest with
      | LErr e => [err_tok e]
      | LOk (None, _, _) => []
      | LOk (Some t, ch', rest') => t :: lex_all f ch' rest'
      end
  end.

Definition lex_runes (l : list Z) : list token :=
  match next l with
  | LErr e => [err_tok e]
  | LOk (ch, rest) => lex_all (S (S (length rest))) ch rest
  end.

Definition lex (s : string) : list token := lex_runes (lex_runes_of s).

(* One Lex call from a fresh lexer positioned on [l] (peek then Lex). *)
Definition lex_one (l : list Z) : lres (option token * Z * list Z) :=
  let* (ch, rest) := next l in lex_tok (S (length rest)) ch rest.

End WithLib.
