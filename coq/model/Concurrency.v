(* C19 -- a parsed Path is immutable, concurrency-safe and deterministic.

   WHAT THIS MODEL SAYS, AND WHAT IT CANNOT SAY.
   The Go memory model, goroutine scheduling and data races are outside an executable Coq
   model.  What is modelled is the ARCHITECTURE that makes the property true:

     - one shared store [sh] (the parsed paths, the documents, the variable maps, the
       package-level tables) that every call may READ;
     - a private state [priv] per call (the Executor / valueList / lexer+parser structs
       allocated afresh by each entry-point call) that the call reads and WRITES;
     - a call is a fresh private state, a sequence of atomic steps
       [sh -> priv -> sh * priv] and an output function [priv -> result];
     - N threads, each a list of calls; a schedule is an arbitrary list of thread ids, one
       atomic step of the named thread per tick (sequentially consistent interleaving).

   Steps are allowed, by their TYPE, to write the shared store; the theorems carry the
   hypothesis [read_only] (no step changes the shared store) and the examples at the end
   exhibit a machine that violates it (a cache cell) for which the conclusions fail.  The
   hypothesis is tied to the code by gen/Effects.v (every store / global read / sync /
   nondeterminism source of every function reachable from the entry points, extracted
   from the SSA form of the repository's current tree by tools/effects) and the predicate
   [allowed] below: props/C19.v demands [forallb allowed Effects.effects = true].

   Not expressible here (covered only by the race-detector run in harness-race, and
   listed in evidence/C19.json): actual interleavings below the granularity of a step,
   weak-memory behaviours, the internal pools of package regexp, and the value of
   time.Now() (read by the method ToTimeTZ of types.Time only). *)

Require Import Coq.Lists.List Coq.Strings.String Coq.Bool.Bool Coq.Arith.PeanoNat.
Import ListNotations.

Set Implicit Arguments.

(* ------------------------------------------------------------------------- *)
(* 1. the abstract machine                                                    *)
(* ------------------------------------------------------------------------- *)

Section Machine.
  Variables sh priv result : Type.

  (* one atomic step of a call: reads the shared store and the private state; returns
     the (possibly written) shared store and the new private state *)
  Definition stepT : Type := sh -> priv -> sh * priv.

  Record call : Type := mkCall {
    c_init  : priv;              (* the fresh Executor *)
    c_steps : list stepT;
    c_out   : priv -> result
  }.

  (* the hypothesis: a step never changes the shared store *)
  Definition read_only (st : stepT) : Prop := forall s p, fst (st s p) = s.
  Definition call_read_only (c : call) : Prop := Forall read_only (c_steps c).

  Fixpoint run_steps (s : sh) (p : priv) (sts : list stepT) : sh * priv :=
    match sts with
    | [] => (s, p)
    | st :: r => let (s', p') := st s p in run_steps s' p' r
    end.

  (* the call run alone on the shared store s *)
  Definition run_alone (s : sh) (c : call) : result :=
    c_out c (snd (run_steps s (c_init c) (c_steps c))).

  (* a sequential history of calls on one thread, the shared store threaded through *)
  Fixpoint run_seq (s : sh) (cs : list call) : sh * list result :=
    match cs with
    | [] => (s, [])
    | c :: r =>
        let (s1, p) := run_steps s (c_init c) (c_steps c) in
        let (s2, rs) := run_seq s1 r in
        (s2, c_out c p :: rs)
    end.

  (* --- threads ----------------------------------------------------------- *)

  Record tstate : Type := mkT {
    pending : list call;                                   (* calls not yet begun *)
    cur     : option (priv * list stepT * (priv -> result)); (* the call in progress *)
    results : list result                                  (* results returned so far *)
  }.

  (* one tick of one thread: begin the next call, or run one step of the call in
     progress, or return its result; a finished thread idles *)
  Definition tick (s : sh) (t : tstate) : sh * tstate :=
    match cur t with
    | Some (p, st :: sts, o) =>
        let (s', p') := st s p in (s', mkT (pending t) (Some (p', sts, o)) (results t))
    | Some (p, [], o) => (s, mkT (pending t) None (results t ++ [o p]))
    | None =>
        match pending t with
        | c :: cs => (s, mkT cs (Some (c_init c, c_steps c, c_out c)) (results t))
        | [] => (s, t)
        end
    end.

  Definition config : Type := list tstate.

  (* tick thread i (an id out of range is a no-op) *)
  Fixpoint upd (i : nat) (cfg : config) (s : sh) : sh * config :=
    match cfg, i with
    | [], _ => (s, [])
    | t :: r, 0 => let (s', t') := tick s t in (s', t' :: r)
    | t :: r, S j => let (s', r') := upd j r s in (s', t :: r')
    end.

  (* a schedule is any list of thread ids *)
  Fixpoint exec (s : sh) (cfg : config) (sched : list nat) : sh * config :=
    match sched with
    | [] => (s, cfg)
    | i :: r => let (s', cfg') := upd i cfg s in exec s' cfg' r
    end.

  Definition start (prog : list (list call)) : config :=
    map (fun cs => mkT cs None []) prog.

  Definition t_done (t : tstate) : Prop := pending t = [] /\ cur t = None.

  (* the schedule is complete for the program when every thread has returned from all
     its calls *)
  Definition complete (s : sh) (prog : list (list call)) (sched : list nat) : Prop :=
    Forall t_done (snd (exec s (start prog) sched)).

  (* ticks a thread still needs *)
  Definition call_cost (c : call) : nat := 2 + List.length (c_steps c).
  Definition cost (t : tstate) : nat :=
    match cur t with
    | Some (_, sts, _) => 1 + List.length sts
    | None => 0
    end + list_sum (map call_cost (pending t)).

  (* the sequential schedule: thread 0 to completion, then thread 1, ... *)
  Fixpoint sched_for (costs : list nat) (i : nat) : list nat :=
    match costs with
    | [] => []
    | c :: r => repeat i c ++ sched_for r (S i)
    end.
  Definition sequential_schedule (prog : list (list call)) : list nat :=
    sched_for (map cost (start prog)) 0.
End Machine.

(* ------------------------------------------------------------------------- *)
(* 2. the bridge from effect classes to "steps write only private state"      *)
(* ------------------------------------------------------------------------- *)

(* Where a store lands. *)
Inductive region : Type :=
| Shared    (* package-level variables, AST nodes after Parse, documents, variable maps *)
| PerCall   (* the Executor, valueList, lexer and parser structs of this call *)
| Fresh.    (* memory allocated by the function itself (or, for parse-time, nodes of the
               tree under construction, not yet returned by Parse) *)

Definition effect : Type := (string * string * string * string)%type.
Definition e_fn (e : effect) : string := fst (fst (fst e)).
Definition e_kind (e : effect) : string := snd (fst (fst e)).
Definition e_class (e : effect) : string := snd (fst e).
Definition e_detail (e : effect) : string := snd e.

Local Open Scope string_scope.

(* target class of a store -> region.  Anything the translator could not classify
   (unknown:<type>, types-value, ...) is treated as Shared. *)
Definition region_of_class (cls : string) : region :=
  if String.eqb cls "local" then Fresh
  else if String.eqb cls "percall" then PerCall
  else if String.eqb cls "parse-time" then Fresh
  else Shared.   (* "global", "ast-write-at-exec", "input", "types-value", "unknown:..." *)

Definition region_private (r : region) : bool :=
  match r with Shared => false | _ => true end.

Definition immutable_global_class (cls : string) : bool :=
  String.eqb cls "immutable:error-sentinel"
  || String.eqb cls "immutable:stringer-table"
  || String.eqb cls "immutable:parser-table"
  || String.eqb cls "immutable:other"
  || String.eqb cls "immutable:stdlib".

(* The nondeterminism sources are pinned to the functions that are known (and documented)
   to use them:
     time.Now   only in types.Time.ToTimeTZ     -- CAVEAT: a Time -> TimeTZ cast takes today's
                date, so in a zone with DST its offset depends on the day the query runs;
     reflect    only in exec.addrOf             -- CAVEAT: .keyvalue() ids derive from addresses;
     map-range  iteration order of Go maps      -- the property excepts "order of object members". *)
Definition nondet_pinned (fn cls : string) : bool :=
  (String.eqb cls "time.Now" && String.eqb fn "(*P/types.Time).ToTimeTZ")
  || (String.eqb cls "reflect" && String.eqb fn "P/exec.addrOf")
  || String.eqb cls "map-range".

(* exactly the effects compatible with "steps read the shared store and write only
   private state" *)
Definition allowed (e : effect) : bool :=
  let k := e_kind e in
  if String.eqb k "store" then region_private (region_of_class (e_class e))
  else if String.eqb k "globalread" then immutable_global_class (e_class e)
  else if String.eqb k "sync" then String.eqb (e_class e) "ctx-done"
  else if String.eqb k "nondet" then nondet_pinned (e_fn e) (e_class e)
  else false.

(* functions in which an effect of the given class occurs *)
Definition functions_with (kind cls : string) (l : list effect) : list string :=
  map e_fn (filter (fun e => String.eqb (e_kind e) kind && String.eqb (e_class e) cls) l).

(* A step as a sequence of primitive writes, each into a region.  Memory: the shared
   store and the private state are both maps from addresses to values; Fresh memory is
   private too. *)
Section Prim.
  Variables addr val : Type.
  Variable addr_eqb : addr -> addr -> bool.

  Definition mem : Type := addr -> val.
  Record prim : Type := mkPrim {
    p_region : region;
    p_addr   : addr;
    p_value  : mem -> mem -> val       (* computed from the shared and the private memory *)
  }.

  Definition set (m : mem) (a : addr) (v : val) : mem :=
    fun b => if addr_eqb b a then v else m b.

  Definition do_prim (w : prim) (s p : mem) : mem * mem :=
    let v := p_value w s p in
    match p_region w with
    | Shared => (set s (p_addr w) v, p)
    | PerCall | Fresh => (s, set p (p_addr w) v)
    end.

  Fixpoint step_of (ws : list prim) (s p : mem) : mem * mem :=
    match ws with
    | [] => (s, p)
    | w :: r => let (s', p') := do_prim w s p in step_of r s' p'
    end.

  Definition writes_private (ws : list prim) : bool :=
    forallb (fun w => region_private (p_region w)) ws.
End Prim.

(* ------------------------------------------------------------------------- *)
(* 3. a machine WITH a shared write: a cache cell                             *)
(* ------------------------------------------------------------------------- *)

(* The regression the property is about, in miniature: "compile on first use, remember
   in a shared cell".  Shared store: one cell (0 = empty).  A call for key k:
     step 1: if the cell is empty, fill it with k          (the shared write)
     step 2: read the cell into the private state
   and returns the private state.  Alone on an empty cell, the call for k returns k. *)
Definition cache_fill (k : nat) : stepT nat nat :=
  fun s p => (if Nat.eqb s 0 then k else s, p).
Definition cache_read : stepT nat nat := fun s _ => (s, s).
Definition cached_call (k : nat) : call nat nat nat :=
  mkCall 0 [cache_fill k; cache_read] (fun p => p).

(* the same call without the cache: computes k privately *)
Definition pure_call (k : nat) : call nat nat nat :=
  mkCall 0 [fun s _ => (s, k)] (fun p => p).
