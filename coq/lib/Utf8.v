(* Utf8.v — UTF-8 decoding/encoding of code points exactly as Go's
   utf8.DecodeRune / utf8.EncodeRune / strings.Builder.WriteRune behave.
   Bytes and code points are Z.  Stdlib only, no axioms. *)
From SJ Require Import lib.Base.
Local Open Scope list_scope.
Notation length := List.length (only parsing).

Definition rune_error : Z := 65533.      (* U+FFFD *)
Definition max_rune : Z := 1114111.      (* U+10FFFF *)
Definition is_surrogate (r : Z) : bool := (55296 <=? r) && (r <=? 57343).
Definition valid_rune (r : Z) : bool := (0 <=? r) && (r <=? max_rune) && negb (is_surrogate r).

Definition bytes_of (s : string) : list Z := map Z_of_ascii (list_of_str s).
Definition str_of_bytes (l : list Z) : string := str_of_list (map ascii_of_Z l).

Definition is_cont (b : Z) : bool := (128 <=? b) && (b <=? 191).

(* utf8.DecodeRune: (rune, width).  Empty input: (RuneError, 0); any invalid
   or short encoding: (RuneError, 1). *)
Definition decode_rune (s : list Z) : Z * nat :=
  match s with
  | [] => (rune_error, 0%nat)
  | b0 :: r =>
      if b0 <? 128 then (b0, 1%nat)
      else if b0 <? 194 then (rune_error, 1%nat)
      else if b0 <? 224 then
        match r with
        | b1 :: _ => if is_cont b1 then ((b0 - 192) * 64 + (b1 - 128), 2%nat) else (rune_error, 1%nat)
        | _ => (rune_error, 1%nat)
        end
      else if b0 <? 240 then
        let lo := if b0 =? 224 then 160 else 128 in
        let hi := if b0 =? 237 then 159 else 191 in
        match r with
        | b1 :: b2 :: _ =>
            if (lo <=? b1) && (b1 <=? hi) && is_cont b2
            then ((b0 - 224) * 4096 + (b1 - 128) * 64 + (b2 - 128), 3%nat)
            else (rune_error, 1%nat)
        | _ => (rune_error, 1%nat)
        end
      else if b0 <? 245 then
        let lo := if b0 =? 240 then 144 else 128 in
        let hi := if b0 =? 244 then 143 else 191 in
        match r with
        | b1 :: b2 :: b3 :: _ =>
            if (lo <=? b1) && (b1 <=? hi) && is_cont b2 && is_cont b3
            then ((b0 - 240) * 262144 + (b1 - 128) * 4096 + (b2 - 128) * 64 + (b3 - 128), 4%nat)
            else (rune_error, 1%nat)
        | _ => (rune_error, 1%nat)
        end
      else (rune_error, 1%nat)
  end.

(* utf8.EncodeRune / AppendRune / WriteRune: negative runes, surrogates and
   runes above U+10FFFF are written as U+FFFD. *)
Definition encode_rune (r : Z) : list Z :=
  if (0 <=? r) && (r <=? 127) then [r]
  else if (0 <=? r) && (r <=? 2047) then [192 + r / 64; 128 + r mod 64]
  else if (r <? 0) || (max_rune <? r) || is_surrogate r then [239; 191; 189]
  else if r <=? 65535 then [224 + r / 4096; 128 + (r / 64) mod 64; 128 + r mod 64]
  else [240 + r / 262144; 128 + (r / 4096) mod 64; 128 + (r / 64) mod 64; 128 + r mod 64].

Definition encode_runes (l : list Z) : list Z := flat_map encode_rune l.

(* The sequence of results of repeatedly decoding, as (rune, width) events.
   Structural on the byte list: [skip] counts the continuation bytes of the
   rune decoded last. *)
Fixpoint decode_events (skip : nat) (s : list Z) : list (Z * nat) :=
  match s with
  | [] => []
  | _ :: r =>
      match skip with
      | S k => decode_events k r
      | O => let ev := decode_rune s in ev :: decode_events (Nat.pred (snd ev)) r
      end
  end.

(* `for _, r := range s` : invalid bytes yield U+FFFD. *)
Definition runes_of_bytes (s : list Z) : list Z := map fst (decode_events 0 s).
Definition runes_of (s : string) : list Z := runes_of_bytes (bytes_of s).

(* The lexer's view: what successive calls of lexer.next() see.  An invalid
   encoding (RuneError with width 1) is the marker -2; a NUL byte is 0. *)
Definition lex_event (ev : Z * nat) : Z :=
  if (fst ev =? rune_error) && Nat.eqb (snd ev) 1 then -2 else fst ev.
Definition lex_runes_of_bytes (s : list Z) : list Z := map lex_event (decode_events 0 s).
Definition lex_runes_of (s : string) : list Z := lex_runes_of_bytes (bytes_of s).

Definition string_of_runes (l : list Z) : string := str_of_bytes (encode_runes l).

(* ------------------------------------------------------------------ *)
(* Facts *)

Ltac zify_div := Z.div_mod_to_equations.

Lemma Z_of_ascii_range c : 0 <= Z_of_ascii c < 256.
Proof.
  unfold Z_of_ascii. pose proof (N_ascii_bounded c). lia.
Qed.

Lemma ascii_of_Z_of_ascii c : ascii_of_Z (Z_of_ascii c) = c.
Proof.
  unfold ascii_of_Z, Z_of_ascii. rewrite N2Z.id. apply ascii_N_embedding.
Qed.

Lemma Z_of_ascii_of_Z z : 0 <= z < 256 -> Z_of_ascii (ascii_of_Z z) = z.
Proof.
  intros H. unfold ascii_of_Z, Z_of_ascii.
  rewrite N_ascii_embedding by lia. lia.
Qed.

Lemma str_of_bytes_of s : str_of_bytes (bytes_of s) = s.
Proof.
  unfold str_of_bytes, bytes_of. rewrite map_map.
  rewrite <- (str_of_list_of_str s) at 2.
  f_equal. induction (list_of_str s) as [|c l IH]; cbn; [reflexivity|].
  rewrite ascii_of_Z_of_ascii, IH. reflexivity.
Qed.

Lemma bytes_of_str_of l : Forall (fun b => 0 <= b < 256) l -> bytes_of (str_of_bytes l) = l.
Proof.
  unfold str_of_bytes, bytes_of. rewrite list_of_str_of_list, map_map.
  induction 1 as [|b l Hb _ IH]; cbn; [reflexivity|].
  rewrite Z_of_ascii_of_Z by exact Hb. rewrite IH. reflexivity.
Qed.

Lemma bytes_of_app a b : bytes_of (a ++ b)%string = bytes_of a ++ bytes_of b.
Proof.
  unfold bytes_of. induction a as [|c a IH]; cbn; [reflexivity|]. rewrite IH. reflexivity.
Qed.

Lemma str_of_bytes_app a b : str_of_bytes (a ++ b) = (str_of_bytes a ++ str_of_bytes b)%string.
Proof.
  unfold str_of_bytes. induction a as [|c a IH]; cbn; [reflexivity|]. rewrite IH. reflexivity.
Qed.

Lemma encode_rune_bytes r : Forall (fun b => 0 <= b < 256) (encode_rune r).
Proof.
  unfold encode_rune, is_surrogate, max_rune.
  destruct ((0 <=? r) && (r <=? 127)) eqn:E1; [repeat constructor; lia|].
  destruct ((0 <=? r) && (r <=? 2047)) eqn:E2; [repeat constructor; zify_div; lia|].
  destruct ((r <? 0) || (1114111 <? r) || ((55296 <=? r) && (r <=? 57343))) eqn:E3;
    [repeat constructor; lia|].
  destruct (r <=? 65535) eqn:E4; repeat constructor; zify_div; lia.
Qed.

(* Decoding what EncodeRune wrote gives the rune back (valid runes). *)
Lemma decode_encode r rest :
  valid_rune r = true ->
  decode_rune (encode_rune r ++ rest) = (r, length (encode_rune r)).
Proof.
  unfold valid_rune, encode_rune, is_surrogate, max_rune. intros V.
  destruct ((0 <=? r) && (r <=? 127)) eqn:E1.
  { cbn [app decode_rune length]. replace (r <? 128) with true by lia. reflexivity. }
  destruct ((0 <=? r) && (r <=? 2047)) eqn:E2.
  { cbn [app decode_rune length]. unfold is_cont.
    replace (192 + r / 64 <? 128) with false by (zify_div; lia).
    replace (192 + r / 64 <? 194) with false by (zify_div; lia).
    replace (192 + r / 64 <? 224) with true by (zify_div; lia).
    replace ((128 <=? 128 + r mod 64) && (128 + r mod 64 <=? 191)) with true by (zify_div; lia).
    f_equal. zify_div; lia. }
  destruct ((r <? 0) || (1114111 <? r) || ((55296 <=? r) && (r <=? 57343))) eqn:E3; [lia|].
  destruct (r <=? 65535) eqn:E4.
  { cbn [app decode_rune length]. unfold is_cont.
    replace (224 + r / 4096 <? 128) with false by (zify_div; lia).
    replace (224 + r / 4096 <? 194) with false by (zify_div; lia).
    replace (224 + r / 4096 <? 224) with false by (zify_div; lia).
    replace (224 + r / 4096 <? 240) with true by (zify_div; lia).
    match goal with |- (if ?c then _ else _) = _ => replace c with true end.
    - f_equal. zify_div; lia.
    - symmetry. destruct (224 + r / 4096 =? 224) eqn:A; destruct (224 + r / 4096 =? 237) eqn:B;
        zify_div; lia. }
  { cbn [app decode_rune length]. unfold is_cont.
    replace (240 + r / 262144 <? 128) with false by (zify_div; lia).
    replace (240 + r / 262144 <? 194) with false by (zify_div; lia).
    replace (240 + r / 262144 <? 224) with false by (zify_div; lia).
    replace (240 + r / 262144 <? 240) with false by (zify_div; lia).
    replace (240 + r / 262144 <? 245) with true by (zify_div; lia).
    match goal with |- (if ?c then _ else _) = _ => replace c with true end.
    - f_equal. zify_div; lia.
    - symmetry. destruct (240 + r / 262144 =? 240) eqn:A; destruct (240 + r / 262144 =? 244) eqn:B;
        zify_div; lia. }
Qed.

Lemma encode_rune_length_pos r : (1 <= length (encode_rune r))%nat.
Proof.
  unfold encode_rune.
  repeat match goal with |- context [if ?c then _ else _] => destruct c end; cbn; lia.
Qed.

(* A decoded rune is never a surrogate, never negative, and at most MaxRune. *)
Definition is_bytes (l : list Z) : Prop := Forall (fun b => 0 <= b < 256) l.

Lemma bytes_of_is_bytes s : is_bytes (bytes_of s).
Proof.
  unfold is_bytes, bytes_of. induction (list_of_str s) as [|c l IH]; cbn; constructor; auto.
  apply Z_of_ascii_range.
Qed.

Lemma decode_rune_valid s : is_bytes s -> valid_rune (fst (decode_rune s)) = true.
Proof.
  unfold decode_rune, valid_rune, is_surrogate, max_rune, rune_error, is_cont.
  intros B. destruct s as [|b0 r]; [reflexivity|].
  inversion B as [|? ? B0 Br]; subst.
  destruct (b0 <? 128) eqn:E0; [cbn [fst]; lia|].
  destruct (b0 <? 194) eqn:E1; [reflexivity|].
  destruct (b0 <? 224) eqn:E2.
  { destruct r as [|b1 r]; [reflexivity|].
    destruct ((128 <=? b1) && (b1 <=? 191)) eqn:C; [cbn [fst]; lia|reflexivity]. }
  destruct (b0 <? 240) eqn:E3.
  { destruct r as [|b1 [|b2 r]]; try reflexivity.
    match goal with |- context [if ?c then _ else _] => destruct c eqn:C end; [|reflexivity].
    cbn [fst]. destruct (b0 =? 224) eqn:A; destruct (b0 =? 237) eqn:D; lia. }
  destruct (b0 <? 245) eqn:E4; [|reflexivity].
  destruct r as [|b1 [|b2 [|b3 r]]]; try reflexivity.
  match goal with |- context [if ?c then _ else _] => destruct c eqn:C end; [|reflexivity].
  cbn [fst]. destruct (b0 =? 240) eqn:A; destruct (b0 =? 244) eqn:D; lia.
Qed.

(* Re-encoding a successfully decoded rune reproduces the bytes consumed. *)
Lemma encode_decode s r w :
  is_bytes s -> decode_rune s = (r, w) -> (r <> rune_error \/ w <> 1%nat) -> w <> 0%nat ->
  encode_rune r = firstn w s.
Proof.
  unfold decode_rune, encode_rune, is_surrogate, max_rune, rune_error, is_cont.
  intros B D NE NZ. destruct s as [|b0 t]; [inversion D; subst; lia|].
  inversion B as [|? ? B0 Bt]; subst.
  destruct (b0 <? 128) eqn:E0.
  { inversion D; subst. replace ((0 <=? r) && (r <=? 127)) with true by lia. reflexivity. }
  destruct (b0 <? 194) eqn:E1; [inversion D; subst; lia|].
  destruct (b0 <? 224) eqn:E2.
  { destruct t as [|b1 t]; [inversion D; subst; lia|].
    destruct ((128 <=? b1) && (b1 <=? 191)) eqn:C; [|inversion D; subst; lia].
    inversion D; subst. cbn [firstn].
    replace ((0 <=? (b0 - 192) * 64 + (b1 - 128)) && ((b0 - 192) * 64 + (b1 - 128) <=? 127)) with false by lia.
    replace ((0 <=? (b0 - 192) * 64 + (b1 - 128)) && ((b0 - 192) * 64 + (b1 - 128) <=? 2047)) with true by lia.
    f_equal; [zify_div; lia|]. f_equal. zify_div; lia. }
  destruct (b0 <? 240) eqn:E3.
  { destruct t as [|b1 [|b2 t]]; try (inversion D; subst; lia).
    match type of D with (if ?c then _ else _) = _ => destruct c eqn:C end; [|inversion D; subst; lia].
    inversion D; subst. cbn [firstn].
    assert (R: 2048 <= (b0 - 224) * 4096 + (b1 - 128) * 64 + (b2 - 128) <= 65535 /\
               ~ (55296 <= (b0 - 224) * 4096 + (b1 - 128) * 64 + (b2 - 128) <= 57343)).
    { destruct (b0 =? 224) eqn:A; destruct (b0 =? 237) eqn:F; lia. }
    set (r := (b0 - 224) * 4096 + (b1 - 128) * 64 + (b2 - 128)) in *.
    replace ((0 <=? r) && (r <=? 127)) with false by lia.
    replace ((0 <=? r) && (r <=? 2047)) with false by lia.
    replace ((r <? 0) || (1114111 <? r) || ((55296 <=? r) && (r <=? 57343))) with false by lia.
    replace (r <=? 65535) with true by lia.
    assert (0 <= b1 - 128 < 64 /\ 0 <= b2 - 128 < 64)
      by (destruct (b0 =? 224) eqn:A; destruct (b0 =? 237) eqn:F; lia).
    f_equal; [subst r; zify_div; lia|]. f_equal; [subst r; zify_div; lia|]. f_equal. subst r; zify_div; lia. }
  destruct (b0 <? 245) eqn:E4; [|inversion D; subst; lia].
  destruct t as [|b1 [|b2 [|b3 t]]]; try (inversion D; subst; lia).
  match type of D with (if ?c then _ else _) = _ => destruct c eqn:C end; [|inversion D; subst; lia].
  inversion D; subst. cbn [firstn].
  assert (R: 65536 <= (b0 - 240) * 262144 + (b1 - 128) * 4096 + (b2 - 128) * 64 + (b3 - 128) <= 1114111).
  { destruct (b0 =? 240) eqn:A; destruct (b0 =? 244) eqn:F; lia. }
  assert (0 <= b1 - 128 < 64 /\ 0 <= b2 - 128 < 64 /\ 0 <= b3 - 128 < 64)
    by (destruct (b0 =? 240) eqn:A; destruct (b0 =? 244) eqn:F; lia).
  set (r := (b0 - 240) * 262144 + (b1 - 128) * 4096 + (b2 - 128) * 64 + (b3 - 128)) in *.
  replace ((0 <=? r) && (r <=? 127)) with false by lia.
  replace ((0 <=? r) && (r <=? 2047)) with false by lia.
  replace ((r <? 0) || (1114111 <? r) || ((55296 <=? r) && (r <=? 57343))) with false by lia.
  replace (r <=? 65535) with false by lia.
  f_equal; [subst r; zify_div; lia|]. f_equal; [subst r; zify_div; lia|].
  f_equal; [subst r; zify_div; lia|]. f_equal. subst r; zify_div; lia.
Qed.

(* decode_events on an encoded rune followed by anything *)
Lemma decode_events_skip k pre rest :
  length pre = k -> decode_events k (pre ++ rest) = decode_events 0 rest.
Proof.
  revert pre. induction k as [|k IH]; intros pre H.
  - destruct pre; [reflexivity|discriminate].
  - destruct pre as [|b pre]; [discriminate|]. cbn [app decode_events].
    apply IH. cbn in H. lia.
Qed.

Lemma decode_events_encode r rest :
  valid_rune r = true ->
  decode_events 0 (encode_rune r ++ rest) = (r, length (encode_rune r)) :: decode_events 0 rest.
Proof.
  intros V. pose proof (decode_encode r rest V) as D.
  pose proof (encode_rune_length_pos r) as P.
  destruct (encode_rune r) as [|b0 t] eqn:E; [cbn in P; lia|].
  cbn [app decode_events]. cbn [app] in D. rewrite D. cbn [snd fst length Nat.pred].
  f_equal. apply decode_events_skip. reflexivity.
Qed.

Lemma runes_of_bytes_encode r rest :
  valid_rune r = true ->
  runes_of_bytes (encode_rune r ++ rest) = r :: runes_of_bytes rest.
Proof.
  intros V. unfold runes_of_bytes. rewrite decode_events_encode by exact V. reflexivity.
Qed.

Lemma runes_of_bytes_encode_runes l :
  forallb valid_rune l = true -> runes_of_bytes (encode_runes l) = l.
Proof.
  induction l as [|r l IH]; intros H; [reflexivity|].
  cbn [forallb] in H. apply andb_prop in H as [Hr Hl].
  cbn [encode_runes flat_map]. rewrite runes_of_bytes_encode by exact Hr.
  f_equal. apply IH. exact Hl.
Qed.

Lemma lex_runes_encode r rest :
  valid_rune r = true ->
  lex_runes_of_bytes (encode_rune r ++ rest) = r :: lex_runes_of_bytes rest.
Proof.
  intros V. unfold lex_runes_of_bytes. rewrite decode_events_encode by exact V.
  cbn [map]. f_equal. unfold lex_event. cbn [fst snd].
  destruct (r =? rune_error) eqn:E; [|reflexivity].
  apply Z.eqb_eq in E. subst r. reflexivity.
Qed.

Lemma lex_runes_encode_runes l rest :
  forallb valid_rune l = true ->
  lex_runes_of_bytes (encode_runes l ++ rest) = l ++ lex_runes_of_bytes rest.
Proof.
  induction l as [|r l IH]; intros H; [reflexivity|].
  cbn [forallb] in H. apply andb_prop in H as [Hr Hl].
  cbn [encode_runes flat_map]. rewrite <- app_assoc.
  rewrite lex_runes_encode by exact Hr. cbn [app]. f_equal. apply IH. exact Hl.
Qed.

(* ASCII fast path *)
Lemma encode_rune_ascii r : 0 <= r < 128 -> encode_rune r = [r].
Proof. intros H. unfold encode_rune. replace ((0 <=? r) && (r <=? 127)) with true by lia. reflexivity. Qed.
