(* GoLib.v — the standard-library behaviour the parser side relies on, as a
   record of oracles, and the facts the proofs use about them, as a record of
   propositions.  Nothing here is an Axiom: theorems are stated
   [forall L, Laws L -> ...]. *)
From Coq Require Import Floats.SpecFloat.
From SJ Require Import lib.Base lib.Utf8 model.Json.
Local Open Scope list_scope.

Record GoLib := mkGoLib {
  (* github.com/smasher164/xid *)
  xid_start : Z -> bool;
  xid_continue : Z -> bool;
  (* strconv.IsPrint *)
  is_print : Z -> bool;
  (* unicode.ToLower, per rune, as used by strings.ToLower *)
  to_lower : Z -> Z;
  (* strconv.ParseInt(s, 0, 64); None on any error *)
  parse_int0 : string -> option Z;
  (* strconv.ParseFloat(s, 64): None = syntax error; Some (v, true) = range error *)
  parse_float : string -> option (f64 * bool);
  (* strconv.FormatInt(z, 10) *)
  format_int : Z -> string;
  (* json.Marshal(float64) *)
  format_float_json : f64 -> string;
  (* float64 negation (sign flip) *)
  f64_neg : f64 -> f64;
  (* regexp/syntax.Parse(pattern, syntaxFlags(flags)) succeeds *)
  regex_ok : string -> Z -> bool
}.

(* ------------------------------------------------------------------ *)
(* Shapes of number texts (used by the Laws) *)

Definition is_digit (c : Z) : bool := (48 <=? c) && (c <=? 57).
Definition all_digits (l : list Z) : bool := forallb is_digit l.

(* value of a decimal digit string *)
Fixpoint dec_value_acc (acc : Z) (l : list Z) : Z :=
  match l with [] => acc | c :: r => dec_value_acc (acc * 10 + (c - 48)) r end.
Definition dec_value (l : list Z) : Z := dec_value_acc 0 l.

(* canonical decimal text of a non-negative integer: non-empty digits, no
   leading zero unless the text is "0" *)
Definition canon_nat_text (l : list Z) : bool :=
  match l with
  | [] => false
  | [c] => is_digit c
  | c :: r => (49 <=? c) && (c <=? 57) && all_digits r
  end.

(* The shape of json.Marshal(float64) for a positive, finite, NON-integral
   value, as far as the lexer cares: digits+ [ '.' digits+ ] [ 'e' ('+'|'-') digits+ ]
   with at least one of the two optional parts, first digit block canonical. *)
Definition split_at_pred (p : Z -> bool) :=
  fix go (l : list Z) : list Z * list Z :=
    match l with
    | [] => ([], [])
    | c :: r => if p c then let (a, b) := go r in (c :: a, b) else ([], l)
    end.

Definition float_text (l : list Z) : bool :=
  let (ip, r1) := split_at_pred is_digit l in
  canon_nat_text ip &&
  match r1 with
  | 46 :: r2 =>
      let (fp, r3) := split_at_pred is_digit r2 in
      negb (match fp with [] => true | _ => false end) &&
      match r3 with
      | [] => true
      | 101 :: s :: r4 => ((s =? 43) || (s =? 45)) && all_digits r4 && negb (match r4 with [] => true | _ => false end)
      | _ => false
      end
  | 101 :: s :: r4 => ((s =? 43) || (s =? 45)) && all_digits r4 && negb (match r4 with [] => true | _ => false end)
  | _ => false
  end.

Definition f64_finite (f : f64) : bool :=
  match f with S754_zero _ | S754_finite _ _ _ => true | _ => false end.
Definition f64_sign (f : f64) : bool :=
  match f with S754_zero s | S754_infinity s | S754_finite s _ _ => s | S754_nan => false end.
Definition f64_is_zero (f : f64) : bool :=
  match f with S754_zero _ => true | _ => false end.

(* mathematical integrality of a finite binary float m * 2^e *)
Definition f64_integral (f : f64) : bool :=
  match f with
  | S754_zero _ => true
  | S754_finite _ m e =>
      if 0 <=? e then true
      else Z.eqb (Z.modulo (Zpos m) (Z.pow 2 (- e))) 0
  | _ => false
  end.

Definition no_minus (s : string) : bool :=
  match s with String c _ => negb (Ascii.eqb c "-") | EmptyString => true end.

Record Laws (L : GoLib) : Prop := mkLaws {
  (* ---- Unicode tables ---- *)
  (* ASCII letters start identifiers; ASCII letters, digits and '_' continue them *)
  xid_start_ascii : forall c, 0 <= c < 128 ->
      xid_start L c = ((65 <=? c) && (c <=? 90)) || ((97 <=? c) && (c <=? 122));
  xid_continue_ascii : forall c, 0 <= c < 128 ->
      xid_continue L c = ((65 <=? c) && (c <=? 90)) || ((97 <=? c) && (c <=? 122))
                         || ((48 <=? c) && (c <=? 57)) || (c =? 95);
  xid_start_continue : forall c, xid_start L c = true -> xid_continue L c = true;
  (* ASCII printable = 0x20..0x7e *)
  is_print_ascii : forall c, 0 <= c < 128 -> is_print L c = (32 <=? c) && (c <=? 126);
  is_print_valid : forall c, is_print L c = true -> valid_rune c = true;
  (* unicode.ToLower on ASCII *)
  to_lower_ascii : forall c, 0 <= c < 128 ->
      to_lower L c = if (65 <=? c) && (c <=? 90) then c + 32 else c;

  (* ---- strconv ---- *)
  (* FormatInt writes the canonical decimal text, '-' first for negatives *)
  format_int_nonneg : forall z, 0 <= z ->
      canon_nat_text (bytes_of (format_int L z)) = true /\ dec_value (bytes_of (format_int L z)) = z;
  format_int_neg : forall z, z < 0 -> format_int L z = String "-" (format_int L (- z));
  (* ParseInt on canonical decimal text: the value, or an error iff out of int64 *)
  parse_int0_dec : forall l, canon_nat_text l = true ->
      parse_int0 L (str_of_bytes l) = if dec_value l <=? max_int64 then Some (dec_value l) else None;
  (* ParseInt never returns a value outside int64 *)
  parse_int0_range : forall s z, parse_int0 L s = Some z -> in_int64 z = true;
  (* ... nor a negative value for a text without a leading minus sign *)
  parse_int0_nonneg : forall s z, parse_int0 L s = Some z -> no_minus s = true -> 0 <= z;
  (* ParseFloat: a value returned without range error is finite *)
  parse_float_finite : forall s v, parse_float L s = Some (v, false) -> f64_finite v = true;
  (* json.Marshal(float64) of a positive finite non-integral value has the
     lexer's NUMERIC shape and ParseFloat reads it back *)
  format_float_shape : forall f, f64_finite f = true -> f64_sign f = false -> f64_integral f = false ->
      float_text (bytes_of (format_float_json L f)) = true;
  format_float_neg : forall f, f64_finite f = true -> f64_sign f = true -> f64_integral f = false ->
      format_float_json L f = String "-" (format_float_json L (f64_neg L f));
  parse_format_float : forall f, f64_finite f = true -> f64_sign f = false ->
      parse_float L (format_float_json L f) = Some (f, false);
  (* negation *)
  f64_neg_spec : forall f, f64_neg L f = SFopp f
}.

(* Immediate consequences *)
Section LawFacts.
  Variable L : GoLib.
  Hypothesis HL : Laws L.

  Lemma xid_continue_delim c : 0 <= c < 128 ->
    ((65 <=? c) && (c <=? 90)) || ((97 <=? c) && (c <=? 122)) || ((48 <=? c) && (c <=? 57)) || (c =? 95) = false ->
    xid_continue L c = false.
  Proof. intros R H. rewrite (xid_continue_ascii L HL) by exact R. exact H. Qed.

  Lemma is_print_nl : is_print L 10 = false.
  Proof. rewrite (is_print_ascii L HL) by lia. reflexivity. Qed.
End LawFacts.
