(* Strconv.v — executable model of the parts of Go's strconv (and of
   encoding/json's float encoder) used by sqljson:
     ParseFloat(s, 64), ParseInt(s, base, bitSize), FormatInt(z, 10),
     FormatFloat(f, 'f'|'e', -1, 64), json float encoding.
   Everything is exact integer arithmetic on Z.  No axioms. *)
From Coq Require Import ZArith Bool List String Ascii Lia.
From Coq Require Import Floats.SpecFloat.
From SJ Require Import lib.Base lib.F64.

Local Open Scope string_scope.
Local Open Scope Z_scope.

(* ---- characters ---- *)
Definition cz (c : ascii) : Z := Z_of_ascii c.
Definition is_digit (c : ascii) : bool := (48 <=? cz c) && (cz c <=? 57).
(* Go's strconv.lower: c | ('x' - 'X') *)
Definition lowerz (c : ascii) : Z := Z.lor (cz c) 32.
Definition is_hex_letter (c : ascii) : bool := (97 <=? lowerz c) && (lowerz c <=? 102).
Definition is_sign (c : ascii) : bool := (cz c =? 43) || (cz c =? 45).
Definition digit_char (d : Z) : ascii := ascii_of_Z (48 + d).

Definition strlen (s : string) : Z := Z.of_nat (String.length s).

(* ---- underscoreOK (strconv/atoi.go) ---- *)
Inductive us_saw := SawStart | SawDigit | SawUnder | SawOther.

Fixpoint us_loop (hex : bool) (saw : us_saw) (s : string) : bool :=
  match s with
  | EmptyString => match saw with SawUnder => false | _ => true end
  | String c r =>
      if is_digit c || (hex && is_hex_letter c) then us_loop hex SawDigit r
      else if cz c =? 95 then
        match saw with
        | SawDigit => us_loop hex SawUnder r
        | _ => false
        end
      else
        match saw with
        | SawUnder => false
        | _ => us_loop hex SawOther r
        end
  end.

Definition underscore_ok (s0 : string) : bool :=
  let s := match s0 with
           | String c r => if is_sign c then r else s0
           | EmptyString => s0
           end in
  match s with
  | String c0 (String c1 r) =>
      if (cz c0 =? 48) &&
         ((lowerz c1 =? 98) || (lowerz c1 =? 111) || (lowerz c1 =? 120))
      then us_loop (lowerz c1 =? 120) SawDigit r
      else us_loop false SawStart s
  | _ => us_loop false SawStart s
  end.

(* ======================================================================= *)
(* ParseInt                                                                 *)
(* ======================================================================= *)

(* digit loop of ParseUint on an unbounded accumulator; None = syntax error *)
Fixpoint pu_loop (base : Z) (base0 : bool) (s : string) (n : Z) (us : bool)
  : option (Z * bool) :=
  match s with
  | EmptyString => Some (n, us)
  | String c r =>
      if (cz c =? 95) && base0 then pu_loop base base0 r n true
      else
        let d := if is_digit c then cz c - 48
                 else if (97 <=? lowerz c) && (lowerz c <=? 122) then lowerz c - 97 + 10
                 else 255 in
        if d <? base then pu_loop base base0 r (n * base + d) us else None
  end.

(* ParseUint without the range check; s is the text after the sign *)
Definition parse_uint_raw (base : Z) (s : string) : option Z :=
  match s with
  | EmptyString => None
  | String c0 r0 =>
      let base0 := base =? 0 in
      let '(b, body) :=
        if base0 then
          if cz c0 =? 48 then
            match r0 with
            | String c1 (String c2 r2) =>
                if lowerz c1 =? 98 then (2, String c2 r2)
                else if lowerz c1 =? 111 then (8, String c2 r2)
                else if lowerz c1 =? 120 then (16, String c2 r2)
                else (8, r0)
            | _ => (8, r0)
            end
          else (10, s)
        else (base, s) in
      if (2 <=? b) && (b <=? 36) then
        match pu_loop b base0 body 0 false with
        | Some (n, us) => if us && negb (underscore_ok s) then None else Some n
        | None => None
        end
      else None
  end.

(* strconv.ParseInt(s, base, bitSize); None on any error (syntax or range). *)
Definition parse_int (base bitSize : Z) (s : string) : option Z :=
  match s with
  | EmptyString => None
  | String c r =>
      let neg := cz c =? 45 in
      let body := if is_sign c then r else s in
      match parse_uint_raw base body with
      | None => None
      | Some un =>
          let cutoff := 2 ^ (bitSize - 1) in
          if neg then (if un <=? cutoff then Some (- un) else None)
          else (if un <? cutoff then Some un else None)
      end
  end.

(* ======================================================================= *)
(* FormatInt                                                                *)
(* ======================================================================= *)

(* decimal digits of z >= 0, least significant first *)
Fixpoint digits_rev (fuel : nat) (z : Z) : list Z :=
  match fuel with
  | O => []
  | S f => if z <? 10 then [z] else (z mod 10) :: digits_rev f (z / 10)
  end.

Definition dec_digits_list (z : Z) : list Z :=
  rev (digits_rev (S (Z.to_nat (Z.log2 z))) z).

Definition str_of_digits (l : list Z) : string :=
  str_of_list (map digit_char l).

Definition format_nat (z : Z) : string := str_of_digits (dec_digits_list z).

Definition format_int (z : Z) : string :=
  if z <? 0 then String "-" (format_nat (- z)) else format_nat z.

(* ======================================================================= *)
(* ParseFloat                                                               *)
(* ======================================================================= *)

Record rf_state := mk_rf {
  rf_sawdot : bool; rf_sawdigits : bool; rf_us : bool;
  rf_nd : Z;      (* digits seen after the leading zeros *)
  rf_dp : Z;      (* decimal point position (in digits) *)
  rf_mant : Z     (* all digits, unbounded *)
}.

(* mantissa loop of readFloat; returns the state and the unread suffix *)
Fixpoint rf_mant_loop (hex : bool) (s : string) (st : rf_state) : rf_state * string :=
  match s with
  | EmptyString => (st, s)
  | String c r =>
      let '(mk_rf sawdot sawdigits us nd dp mant) := st in
      if cz c =? 95 then rf_mant_loop hex r (mk_rf sawdot sawdigits true nd dp mant)
      else if cz c =? 46 then
        if sawdot then (st, s)
        else rf_mant_loop hex r (mk_rf true sawdigits us nd nd mant)
      else if is_digit c then
        if (cz c =? 48) && (nd =? 0)
        then rf_mant_loop hex r (mk_rf sawdot true us nd (dp - 1) mant)
        else rf_mant_loop hex r
               (mk_rf sawdot true us (nd + 1) dp
                      (mant * (if hex then 16 else 10) + (cz c - 48)))
      else if hex && is_hex_letter c then
        rf_mant_loop hex r
          (mk_rf sawdot true us (nd + 1) dp (mant * 16 + (lowerz c - 97 + 10)))
      else (st, s)
  end.

(* exponent digit loop (with Go's saturation at e >= 10000) *)
Fixpoint rf_exp_loop (s : string) (e : Z) (us : bool) : Z * bool * string :=
  match s with
  | EmptyString => (e, us, s)
  | String c r =>
      if is_digit c then
        rf_exp_loop r (if e <? 10000 then e * 10 + (cz c - 48) else e) us
      else if cz c =? 95 then rf_exp_loop r e true
      else (e, us, s)
  end.

(* optional exponent: Some (signed exponent, underscores, rest);
   None = malformed.  [present] is false when there is no exponent char. *)
Definition rf_exponent (expchar : Z) (s : string) : option (bool * Z * bool * string) :=
  match s with
  | String c r =>
      if lowerz c =? expchar then
        match r with
        | EmptyString => None
        | String c1 r1 =>
            let '(esign, r2) :=
              if cz c1 =? 43 then (1, r1)
              else if cz c1 =? 45 then (-1, r1)
              else (1, r) in
            match r2 with
            | String c2 _ =>
                if is_digit c2 then
                  let '(e, us, rest) := rf_exp_loop r2 0 false in
                  Some (true, e * esign, us, rest)
                else None
            | EmptyString => None
            end
        end
      else Some (false, 0, false, s)
  | EmptyString => Some (false, 0, false, s)
  end.

(* readFloat + conversion, for a string that is not inf/nan *)
Definition parse_float_num (s : string) : option (f64 * bool) :=
  let '(neg, s1) :=
    match s with
    | String c r => if cz c =? 43 then (false, r)
                    else if cz c =? 45 then (true, r) else (false, s)
    | EmptyString => (false, s)
    end in
  let '(hex, s2) :=
    match s1 with
    | String c0 (String c1 (String c2 r)) =>
        if (cz c0 =? 48) && (lowerz c1 =? 120) then (true, String c2 r) else (false, s1)
    | _ => (false, s1)
    end in
  let '(st, s3) := rf_mant_loop hex s2 (mk_rf false false false 0 0 0) in
  let '(mk_rf sawdot sawdigits us nd dp0 mant) := st in
  if negb sawdigits then None else
  let dp := if sawdot then dp0 else nd in
  match rf_exponent (if hex then 112 else 101) s3 with
  | None => None
  | Some (present, e, us2, rest) =>
      if hex && negb present then None else
      match rest with
      | String _ _ => None
      | EmptyString =>
          if (us || us2) && negb (underscore_ok s) then None else
          let v :=
            if mant =? 0 then S754_zero neg
            else if hex then f64_mk neg mant (4 * dp + e - 4 * nd)
            else f64_of_dec neg mant (dp + e - nd) in
          Some (v, f64_is_inf v)
      end
  end.

(* strconv.ParseFloat(s, 64).
   None            : syntax error
   Some (v, false) : v, nil
   Some (±Inf, true) : ±Inf, ErrRange *)
Definition parse_float (s : string) : option (f64 * bool) :=
  let ls := str_lower s in
  let body := match ls with
              | String c r => if is_sign c then r else ls
              | EmptyString => ls
              end in
  let neg := match ls with String c _ => cz c =? 45 | _ => false end in
  if String.eqb body "inf" || String.eqb body "infinity"
  then Some (S754_infinity neg, false)
  else if String.eqb ls "nan" then Some (S754_nan, false)
  else parse_float_num s.

(* ======================================================================= *)
(* Shortest formatting                                                      *)
(* ======================================================================= *)

Fixpoint strip_trailing_zeros_rev (l : list Z) : list Z :=
  match l with
  | d :: r => if d =? 0 then strip_trailing_zeros_rev r else l
  | [] => []
  end.
Definition strip_trailing_zeros (l : list Z) : list Z :=
  rev (strip_trailing_zeros_rev (rev l)).

(* is  C/den < 10^k ? *)
Definition lt_pow10 (C den k : Z) : bool :=
  if 0 <=? k then C <? den * 10 ^ k else C * 10 ^ (- k) <? den.

Fixpoint dp_loop (fuel : nat) (C den k : Z) : Z :=
  match fuel with
  | O => k
  | S f => if lt_pow10 C den k then k else dp_loop f C den (k + 1)
  end.

(* smallest k with C/den < 10^k *)
Definition dec_point (C den : Z) : Z :=
  dp_loop 8 C den (((Z.log2 C - Z.log2 den) * 30103) / 100000 - 2).

(* Try n = 1, 2, ...: the n-digit decimals around C/den are T (down) and T+1
   (up) in units of 10^(dp-n); accept when one lies inside the rounding
   interval [L/den, H/den] (closed iff incl); if both do, take the nearer,
   ties to even.  This is strconv's roundShortest / ryuFtoaShortest. *)
Fixpoint sd_loop (fuel : nat) (n : Z) (L C H den : Z) (incl : bool) (dp : Z)
  : list Z * Z :=
  match fuel with
  | O => ([], dp)
  | S fuel' =>
      let k := dp - n in
      let mul := if 0 <=? k then 1 else 10 ^ (- k) in
      let D := if 0 <=? k then den * 10 ^ k else den in
      let Nu := C * mul in
      let L' := L * mul in
      let H' := H * mul in
      let T := Nu / D in
      let down := T * D in
      let up := (T + 1) * D in
      let okdown := if incl then L' <=? down else L' <? down in
      let okup := if incl then up <=? H' else up <? H' in
      let res :=
        if okdown && okup then
          Some match Z.compare (2 * (Nu - down)) D with
               | Lt => T
               | Gt => T + 1
               | Eq => if Z.even T then T else T + 1
               end
        else if okdown then Some T
        else if okup then Some (T + 1)
        else None in
      match res with
      | Some R =>
          let ds := dec_digits_list R in
          (strip_trailing_zeros ds, dp + (Z.of_nat (List.length ds) - n))
      | None => sd_loop fuel' (n + 1) L C H den incl dp
      end
  end.

(* Go's decimalSlice {d, nd, dp} for FormatFloat(f, fmt, -1, 64).
   Zero / Inf / NaN give ([], 0). *)
Definition shortest_digits_ref (f : f64) : list Z * Z :=
  match f with
  | S754_finite _ m e =>
      let mz := Zpos m in
      let border := (mz =? 4503599627370496) && negb (e =? -1074) in
      let C0 := 4 * mz in
      let L0 := if border then 4 * mz - 1 else 4 * mz - 2 in
      let H0 := 4 * mz + 2 in
      let E := e - 2 in
      let sc := if 0 <=? E then 2 ^ E else 1 in
      let den := if 0 <=? E then 1 else 2 ^ (- E) in
      let C := C0 * sc in
      let dp := dec_point C den in
      sd_loop 20 1 (L0 * sc) C (H0 * sc) den (Z.even mz) dp
  | _ => ([], 0)
  end.

(* The same function with a single big division (the reference above does one
   per candidate length, which is slow for extreme exponents).  With an
   estimate dp' of the decimal exponent that is off by at most one, let
   k = dp' - 18, D = 10^k (scaled): C = T + rem/D where T has J = 17..19 digits,
   which also gives the true dp.  The interval ends are C -/+ a small multiple
   of delta; only their floor/ceiling in units of D are needed because every
   candidate is an integer number of units. *)

(* floor (x / d) for d > 0 *)
Definition small_fdiv (x d : Z) : Z :=
  if 0 <=? x then fst (Zfast_div_eucl x d)
  else let '(q, r) := Zfast_div_eucl (- x) d in
       if r =? 0 then - q else - q - 1.

Fixpoint sdJ_loop (fuel : nat) (n J : Z) (T : Z) (rem_zero : bool) (cmp0 : comparison)
         (Lf Lc Hf Hc : Z) (incl : bool) (dp : Z) : list Z * Z :=
  match fuel with
  | O => (strip_trailing_zeros (dec_digits_list T), dp)
  | S fuel' =>
      let j := J - n in
      let P := 10 ^ j in
      let Tn := T / P in
      let down := Tn * P in
      let up := (Tn + 1) * P in
      let okdown := if incl then Lc <=? down else Lf <? down in
      let okup := if incl then up <=? Hf else up <? Hc in
      let res :=
        if okdown && okup then
          let c :=
            if j =? 0 then cmp0 else
            match Z.compare (T - down) (P / 2) with
            | Eq => if rem_zero then Eq else Gt
            | c => c
            end in
          Some match c with
               | Lt => Tn
               | Gt => Tn + 1
               | Eq => if Z.even Tn then Tn else Tn + 1
               end
        else if okdown then Some Tn
        else if okup then Some (Tn + 1)
        else None in
      match res with
      | Some R =>
          let ds := dec_digits_list R in
          (strip_trailing_zeros ds, dp + (Z.of_nat (List.length ds) - n))
      | None => sdJ_loop fuel' (n + 1) J T rem_zero cmp0 Lf Lc Hf Hc incl dp
      end
  end.

Definition shortest_digits (f : f64) : list Z * Z :=
  match f with
  | S754_finite _ m e =>
      let mz := Zpos m in
      let border := (mz =? 4503599627370496) && negb (e =? -1074) in
      let E := e - 2 in
      let sc := if 0 <=? E then 2 ^ E else 1 in
      let den := if 0 <=? E then 1 else 2 ^ (- E) in
      let C := 4 * mz * sc in
      let dp' := ((Z.log2 C - Z.log2 den) * 30103) / 100000 + 1 in
      let k := dp' - 18 in
      let mul := if 0 <=? k then 1 else 10 ^ (- k) in
      let D := if 0 <=? k then den * 10 ^ k else den in
      let delta := sc * mul in
      let '(T, rem) := Zfast_div_eucl (C * mul) D in
      let J := if T <? 100000000000000000 then 17
               else if T <? 1000000000000000000 then 18 else 19 in
      let dp := dp' + (J - 18) in
      let xl := rem - (if border then delta else 2 * delta) in
      let xh := rem + 2 * delta in
      let ql := small_fdiv xl D in
      let qh := small_fdiv xh D in
      let Lf := T + ql in
      let Lc := if xl - ql * D =? 0 then Lf else Lf + 1 in
      let Hf := T + qh in
      let Hc := if xh - qh * D =? 0 then Hf else Hf + 1 in
      sdJ_loop 17 1 J T (rem =? 0) (Z.compare (2 * rem) D) Lf Lc Hf Hc (Z.even mz) dp
  | _ => ([], 0)
  end.

(* ---- %f and %e layouts (strconv fmtF / fmtE with shortest precision) ---- *)
Fixpoint zeros (n : nat) : string :=
  match n with O => EmptyString | S k => String "0" (zeros k) end.

Definition fmt_f (neg : bool) (ds : list Z) (dp : Z) : string :=
  let nd := Z.of_nat (List.length ds) in
  let intpart :=
    if 0 <? dp then
      let m := Z.min nd dp in
      str_of_digits (firstn (Z.to_nat m) ds) ++ zeros (Z.to_nat (dp - m))
    else "0" in
  let fracpart :=
    if dp <? nd then
      "." ++ zeros (Z.to_nat (- dp)) ++ str_of_digits (skipn (Z.to_nat dp) ds)
    else "" in
  (if neg then "-" else "") ++ intpart ++ fracpart.

Definition fmt_e (neg : bool) (ds : list Z) (dp : Z) : string :=
  let first := match ds with d :: _ => digit_char d | [] => "0"%char end in
  let more := match ds with _ :: (_ :: _) as r => "." ++ str_of_digits r | _ => "" end in
  let exp := match ds with [] => 0 | _ => dp - 1 end in
  let a := Z.abs exp in
  (if neg then "-" else "") ++ String first more ++ "e" ++
  (if exp <? 0 then "-" else "+") ++
  (if a <? 10 then "0" else "") ++ format_nat a.

Definition format_special (f : f64) : option string :=
  match f with
  | S754_nan => Some "NaN"
  | S754_infinity false => Some "+Inf"
  | S754_infinity true => Some "-Inf"
  | _ => None
  end.

(* strconv.FormatFloat(f, 'f', -1, 64) *)
Definition format_float_f (f : f64) : string :=
  match format_special f with
  | Some s => s
  | None => let '(ds, dp) := shortest_digits f in fmt_f (f64_signbit f) ds dp
  end.

(* strconv.FormatFloat(f, 'e', -1, 64) *)
Definition format_float_e (f : f64) : string :=
  match format_special f with
  | Some s => s
  | None => let '(ds, dp) := shortest_digits f in fmt_e (f64_signbit f) ds dp
  end.

(* "e-0d" -> "e-d" at the end of the text (encoding/json floatEncoder) *)
Fixpoint json_exp_cleanup (s : string) : string :=
  match s with
  | String "e" (String "-" (String "0" (String d EmptyString))) =>
      String "e" (String "-" (String d EmptyString))
  | String c r => String c (json_exp_cleanup r)
  | EmptyString => EmptyString
  end.

(* what encoding/json writes for a float64 (it refuses NaN/±Inf before
   getting here; for those we return FormatFloat's text). *)
Definition format_float_json (f : f64) : string :=
  let a := f64_abs f in
  let use_e :=
    negb (f64_is_zero a) &&
    (f64_ltb a (f64_of_dec false 1 (-6)) || f64_leb (f64_of_dec false 1 21) a) in
  if use_e then json_exp_cleanup (format_float_e f) else format_float_f f.

(* ======================================================================= *)
(* FormatInt / ParseInt round trip (base 10)                                *)
(* ======================================================================= *)

Definition is_dig (d : Z) : Prop := 0 <= d <= 9.

Lemma digit_char_props : forall d, is_dig d ->
  is_digit (digit_char d) = true /\ cz (digit_char d) = 48 + d.
Proof.
  intros d H. unfold is_dig in H.
  assert (Hc : d = 0 \/ d = 1 \/ d = 2 \/ d = 3 \/ d = 4 \/ d = 5 \/ d = 6 \/
               d = 7 \/ d = 8 \/ d = 9) by lia.
  repeat (destruct Hc as [Hc|Hc]; [subst d; vm_compute; auto|]).
  subst d; vm_compute; auto.
Qed.

Lemma digit_char_not_sign : forall d, is_dig d -> is_sign (digit_char d) = false.
Proof.
  intros d H. destruct (digit_char_props d H) as [_ Hc]. unfold is_dig in H.
  unfold is_sign. rewrite Hc.
  apply orb_false_iff; split; apply Z.eqb_neq; lia.
Qed.

Lemma pu_loop_digits : forall l, Forall is_dig l -> forall acc,
  pu_loop 10 false (str_of_digits l) acc false
  = Some (fold_left (fun a d => a * 10 + d) l acc, false).
Proof.
  induction 1 as [|x l Hx Hl IH]; intros acc.
  - reflexivity.
  - destruct (digit_char_props x Hx) as [Hd Hc].
    unfold str_of_digits in *. cbn [map str_of_list pu_loop fold_left].
    rewrite andb_false_r, Hd, Hc.
    replace (48 + x - 48) with x by lia.
    replace (x <? 10) with true by (symmetry; apply Z.ltb_lt; unfold is_dig in Hx; lia).
    apply IH.
Qed.

Definition dvalue (l : list Z) : Z := fold_left (fun a d => a * 10 + d) l 0.

Lemma parse_uint_digits : forall l, l <> [] -> Forall is_dig l ->
  parse_uint_raw 10 (str_of_digits l) = Some (dvalue l).
Proof.
  intros [|x l] Hne Hall; [congruence|].
  pose proof (pu_loop_digits (x :: l) Hall 0) as Hp.
  unfold str_of_digits in *. cbn [map str_of_list] in *.
  unfold parse_uint_raw.
  change (10 =? 0) with false. cbv iota beta.
  change ((2 <=? 10) && (10 <=? 36)) with true. cbv iota.
  rewrite Hp. reflexivity.
Qed.

Lemma digits_rev_spec : forall fuel n, 0 <= n < 2 ^ Z.of_nat fuel ->
  fold_right (fun d a => a * 10 + d) 0 (digits_rev fuel n) = n /\
  Forall is_dig (digits_rev fuel n).
Proof.
  induction fuel as [|f IH]; intros n Hn.
  - change (2 ^ Z.of_nat 0) with 1 in Hn. assert (n = 0) by lia. subst n.
    split; [reflexivity | constructor].
  - cbn [digits_rev]. destruct (n <? 10) eqn:Hlt.
    + apply Z.ltb_lt in Hlt. split; [cbn; lia | repeat constructor; unfold is_dig; lia].
    + apply Z.ltb_ge in Hlt.
      rewrite Nat2Z.inj_succ, Z.pow_succ_r in Hn by lia.
      assert (Hq : 0 <= n / 10 < 2 ^ Z.of_nat f).
      { generalize dependent (2 ^ Z.of_nat f). intros P HP.
        Z.to_euclidean_division_equations; lia. }
      destruct (IH (n / 10) Hq) as [Hv Hf].
      split.
      * cbn [fold_right]. rewrite Hv.
        Z.to_euclidean_division_equations; lia.
      * constructor; [|exact Hf]. unfold is_dig.
        Z.to_euclidean_division_equations; lia.
Qed.

Lemma dec_digits_list_spec : forall n, 0 <= n ->
  dec_digits_list n <> [] /\ Forall is_dig (dec_digits_list n) /\
  dvalue (dec_digits_list n) = n.
Proof.
  intros n Hn. unfold dec_digits_list.
  set (fuel := S (Z.to_nat (Z.log2 n))).
  assert (Hb : 0 <= n < 2 ^ Z.of_nat fuel).
  { subst fuel. rewrite Nat2Z.inj_succ, Z2Nat.id by apply Z.log2_nonneg.
    destruct (Z.eq_dec n 0) as [->|Hnz]; [vm_compute; split; congruence|].
    pose proof (Z.log2_spec n ltac:(lia)). lia. }
  destruct (digits_rev_spec fuel n Hb) as [Hv Hf].
  split; [|split].
  - intros Hrev. apply (f_equal (@rev Z)) in Hrev. rewrite rev_involutive in Hrev.
    subst fuel. cbn [digits_rev] in Hrev. destruct (n <? 10); discriminate.
  - apply Forall_rev; exact Hf.
  - unfold dvalue.
    pose proof (fold_left_rev_right (fun d a => a * 10 + d)
                  (rev (digits_rev fuel n)) 0) as Hfr.
    rewrite rev_involutive in Hfr. cbv beta in Hfr. rewrite <- Hfr. exact Hv.
Qed.

Lemma parse_int_neg_shape : forall body,
  parse_int 10 64 (String "-" body) =
  match parse_uint_raw 10 body with
  | None => None
  | Some un => if un <=? 9223372036854775808 then Some (- un) else None
  end.
Proof. reflexivity. Qed.

Lemma parse_int_pos_shape : forall c r, is_sign c = false ->
  parse_int 10 64 (String c r) =
  match parse_uint_raw 10 (String c r) with
  | None => None
  | Some un => if un <? 9223372036854775808 then Some un else None
  end.
Proof.
  intros c r Hs. unfold parse_int. rewrite Hs.
  unfold is_sign in Hs. apply orb_false_iff in Hs. destruct Hs as [_ Hs].
  rewrite Hs. reflexivity.
Qed.

Theorem parse_int_format_int : forall z,
  in_int64 z = true -> parse_int 10 64 (format_int z) = Some z.
Proof.
  intros z Hz. unfold in_int64, min_int64, max_int64 in Hz.
  apply andb_true_iff in Hz. destruct Hz as [Hlo Hhi].
  apply Z.leb_le in Hlo. apply Z.leb_le in Hhi.
  unfold format_int. destruct (z <? 0) eqn:Hneg.
  - apply Z.ltb_lt in Hneg.
    destruct (dec_digits_list_spec (- z) ltac:(lia)) as (Hne & Hf & Hv).
    rewrite parse_int_neg_shape. unfold format_nat.
    rewrite (parse_uint_digits _ Hne Hf), Hv.
    replace (- z <=? 9223372036854775808) with true by (symmetry; apply Z.leb_le; lia).
    rewrite Z.opp_involutive. reflexivity.
  - apply Z.ltb_ge in Hneg.
    destruct (dec_digits_list_spec z Hneg) as (Hne & Hf & Hv).
    unfold format_nat.
    pose proof (parse_uint_digits _ Hne Hf) as Hp.
    destruct (dec_digits_list z) as [|d l] eqn:Hl; [congruence|].
    assert (Hd : is_dig d) by (inversion Hf; assumption).
    unfold str_of_digits in *. cbn [map str_of_list] in *.
    rewrite (parse_int_pos_shape _ _ (digit_char_not_sign d Hd)), Hp, Hv.
    replace (z <? 9223372036854775808) with true by (symmetry; apply Z.ltb_lt; lia).
    reflexivity.
Qed.
