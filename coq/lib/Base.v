(* Base.v — outcome monad and small utilities shared by the whole development.
   Stdlib only.  No axioms. *)
From Coq Require Export List ZArith NArith String Ascii Bool Lia.
Export ListNotations.
Open Scope Z_scope.

(* A Go call either returns, panics, or (model artefact) runs out of fuel. *)
Inductive outcome (A : Type) : Type :=
| Ret (a : A)
| Panic (why : string)
| OutOfFuel.
Arguments Ret {A} a.
Arguments Panic {A} why.
Arguments OutOfFuel {A}.

Definition bindo {A B} (x : outcome A) (f : A -> outcome B) : outcome B :=
  match x with
  | Ret a => f a
  | Panic w => Panic w
  | OutOfFuel => OutOfFuel
  end.

Declare Scope out_scope.
Notation "'do' x <- a ; b" := (bindo a (fun x => b))
  (at level 200, x pattern, a at level 100, b at level 200) : out_scope.
Open Scope out_scope.

Definition is_ret {A} (x : outcome A) : bool :=
  match x with Ret _ => true | _ => false end.

Lemma bindo_ret {A B} (a : A) (f : A -> outcome B) : bindo (Ret a) f = f a.
Proof. reflexivity. Qed.

Lemma bindo_inv {A B} (x : outcome A) (f : A -> outcome B) (b : B) :
  bindo x f = Ret b -> exists a, x = Ret a /\ f a = Ret b.
Proof. destruct x; simpl; intros H; try discriminate; eauto. Qed.

(* option helpers *)
Definition obind {A B} (x : option A) (f : A -> option B) : option B :=
  match x with Some a => f a | None => None end.

Definition is_some {A} (x : option A) : bool :=
  match x with Some _ => true | None => false end.

(* int ranges *)
Definition min_int64 : Z := - 9223372036854775808.
Definition max_int64 : Z := 9223372036854775807.
Definition min_int32 : Z := - 2147483648.
Definition max_int32 : Z := 2147483647.
Definition max_uint32 : Z := 4294967295.
Definition in_int64 (z : Z) : bool := (min_int64 <=? z) && (z <=? max_int64).
Definition in_int32 (z : Z) : bool := (min_int32 <=? z) && (z <=? max_int32).

(* Go's two's-complement wrap of an arbitrary integer into int64. *)
Definition wrap64 (z : Z) : Z :=
  let m := Z.modulo (z + 9223372036854775808) 18446744073709551616 in
  m - 9223372036854775808.

Lemma wrap64_id z : in_int64 z = true -> wrap64 z = z.
Proof.
  unfold in_int64, wrap64, min_int64, max_int64; intros H.
  apply andb_true_iff in H; destruct H as [H1 H2].
  apply Z.leb_le in H1; apply Z.leb_le in H2.
  rewrite Z.mod_small by lia. lia.
Qed.

Lemma wrap64_range z : in_int64 (wrap64 z) = true.
Proof.
  unfold in_int64, wrap64, min_int64, max_int64.
  pose proof (Z.mod_pos_bound (z + 9223372036854775808) 18446744073709551616 ltac:(lia)).
  apply andb_true_iff; split; apply Z.leb_le; lia.
Qed.

(* byte strings *)
Fixpoint str_compare (a b : string) : comparison :=
  match a, b with
  | EmptyString, EmptyString => Eq
  | EmptyString, _ => Lt
  | _, EmptyString => Gt
  | String x a', String y b' =>
      match N.compare (N_of_ascii x) (N_of_ascii y) with
      | Eq => str_compare a' b'
      | c => c
      end
  end.

Fixpoint str_prefix (p s : string) : bool :=
  match p, s with
  | EmptyString, _ => true
  | String x p', String y s' => Ascii.eqb x y && str_prefix p' s'
  | _, _ => false
  end.

Fixpoint str_of_list (l : list ascii) : string :=
  match l with [] => EmptyString | c :: r => String c (str_of_list r) end.
Fixpoint list_of_str (s : string) : list ascii :=
  match s with EmptyString => [] | String c r => c :: list_of_str r end.

Lemma str_of_list_of_str s : str_of_list (list_of_str s) = s.
Proof. induction s; simpl; congruence. Qed.
Lemma list_of_str_of_list l : list_of_str (str_of_list l) = l.
Proof. induction l; simpl; congruence. Qed.

Definition ascii_of_Z (z : Z) : ascii := ascii_of_N (Z.to_N z).
Definition Z_of_ascii (c : ascii) : Z := Z.of_N (N_of_ascii c).

Definition lower_ascii (c : ascii) : ascii :=
  let n := Z_of_ascii c in
  if (65 <=? n) && (n <=? 90) then ascii_of_Z (n + 32) else c.
Fixpoint str_lower (s : string) : string :=
  match s with EmptyString => EmptyString | String c r => String (lower_ascii c) (str_lower r) end.
(* strings.EqualFold restricted to an ASCII second argument *)
Definition str_equal_fold_ascii (a b : string) : bool := String.eqb (str_lower a) (str_lower b).
