(* F64.v — executable, axiom-free model of Go's float64 (IEEE-754 binary64,
   round-to-nearest-even) and of the parts of package math the sqljson model
   needs.  Values are Coq's [SpecFloat.spec_float] with prec = 53, emax = 1024;
   NaN payloads are not modelled (a single NaN).  Only the Z-based executable
   specification from the standard library is used: no reals, no axioms. *)
From Coq Require Import ZArith Bool List Lia.
From Coq Require Import Floats.SpecFloat.
From SJ Require Import lib.Base.

Definition f64 := SpecFloat.spec_float.

Definition f64_prec : Z := 53.
Definition f64_emax : Z := 1024.

Definition valid_f64 (f : f64) : bool := valid_binary 53 1024 f.

(* (-1)^s * m * 2^e correctly rounded (nearest even); m may be any integer,
   a negative m flips the sign. *)
Definition f64_mk (s : bool) (m : Z) (e : Z) : f64 :=
  match m with
  | Z0 => S754_zero s
  | Zpos p => binary_round 53 1024 s p e
  | Zneg p => binary_round 53 1024 (negb s) p e
  end.

Definition f64_zero : f64 := S754_zero false.
Definition f64_nan : f64 := S754_nan.
Definition f64_inf (neg : bool) : f64 := S754_infinity neg.

(* ---- arithmetic ---- *)
Definition f64_add (a b : f64) : f64 := SFadd 53 1024 a b.
Definition f64_sub (a b : f64) : f64 := SFsub 53 1024 a b.
Definition f64_mul (a b : f64) : f64 := SFmul 53 1024 a b.
Definition f64_div (a b : f64) : f64 := SFdiv 53 1024 a b.
Definition f64_neg (a : f64) : f64 := SFopp a.
Definition f64_abs (a : f64) : f64 := SFabs a.

(* ---- comparisons ---- *)
Definition f64_cmp (a b : f64) : option comparison := SFcompare a b.
Definition f64_eqb (a b : f64) : bool := SFeqb a b.
Definition f64_ltb (a b : f64) : bool := SFltb a b.
Definition f64_leb (a b : f64) : bool := SFleb a b.

Definition f64_is_nan (a : f64) : bool :=
  match a with S754_nan => true | _ => false end.
Definition f64_is_inf (a : f64) : bool :=
  match a with S754_infinity _ => true | _ => false end.
Definition f64_is_zero (a : f64) : bool :=
  match a with S754_zero _ => true | _ => false end.
Definition f64_is_finite (a : f64) : bool :=
  match a with S754_zero _ | S754_finite _ _ _ => true | _ => false end.
(* math.Signbit *)
Definition f64_signbit (a : f64) : bool :=
  match a with
  | S754_zero s | S754_infinity s | S754_finite s _ _ => s
  | S754_nan => false
  end.

(* ---- math.Mod : exact fmod, result has the sign of x ---- *)
Definition f64_mod (x y : f64) : f64 :=
  match x, y with
  | S754_nan, _ | _, S754_nan => S754_nan
  | S754_infinity _, _ => S754_nan
  | _, S754_zero _ => S754_nan
  | _, S754_infinity _ => x
  | S754_zero _, _ => x
  | S754_finite sx mx ex, S754_finite _ my ey =>
      let e := Z.min ex ey in
      let X := Zpos mx * 2 ^ (ex - e) in
      let Y := Zpos my * 2 ^ (ey - e) in
      f64_mk sx (X mod Y) e
  end.

(* ---- math.Trunc / Floor / Ceil / Round ---- *)
Definition f64_trunc (x : f64) : f64 :=
  match x with
  | S754_finite s m e =>
      if 0 <=? e then x else f64_mk s (Zpos m / 2 ^ (- e)) 0
  | _ => x
  end.

Definition f64_floor (x : f64) : f64 :=
  match x with
  | S754_finite s m e =>
      if 0 <=? e then x else
      let d := 2 ^ (- e) in
      let q := Zpos m / d in
      let r := Zpos m mod d in
      if s then f64_mk true (if r =? 0 then q else q + 1) 0
      else f64_mk false q 0
  | _ => x
  end.

(* Go: ceil(x) = -Floor(-x) *)
Definition f64_ceil (x : f64) : f64 := f64_neg (f64_floor (f64_neg x)).

(* math.Round: half away from zero, on the exact value *)
Definition f64_round (x : f64) : f64 :=
  match x with
  | S754_finite s m e =>
      if 0 <=? e then x else
      let d := 2 ^ (- e) in
      let q := Zpos m / d in
      let r := Zpos m mod d in
      f64_mk s (if d <=? 2 * r then q + 1 else q) 0
  | _ => x
  end.

(* ---- conversions with integers ---- *)
(* float64(int64 z): nearest even.  Total on Z (huge z gives ±Inf). *)
Definition f64_of_Z (z : Z) : f64 := f64_mk false z 0.

(* int64(f) as compiled on amd64 (CVTTSD2SQ): truncation; NaN, ±Inf and
   out-of-range values give the "integer indefinite" 0x8000000000000000. *)
Definition f64_to_int64 (f : f64) : Z :=
  match f with
  | S754_zero _ => 0
  | S754_finite s m e =>
      let a := if 0 <=? e then Zpos m * 2 ^ e else Zpos m / 2 ^ (- e) in
      let v := if s then - a else a in
      if in_int64 v then v else min_int64
  | _ => min_int64
  end.

Definition f64_to_Z_exact (f : f64) : option Z :=
  match f with
  | S754_zero _ => Some 0
  | S754_finite s m e =>
      if 0 <=? e then
        let a := Zpos m * 2 ^ e in Some (if s then - a else a)
      else
        let d := 2 ^ (- e) in
        if Zpos m mod d =? 0 then
          let a := Zpos m / d in Some (if s then - a else a)
        else None
  | _ => None
  end.

(* truncation toward zero of any finite value, as an unbounded integer *)
Definition f64_trunc_Z (f : f64) : option Z :=
  match f with
  | S754_zero _ => Some 0
  | S754_finite s m e =>
      let a := if 0 <=? e then Zpos m * 2 ^ e else Zpos m / 2 ^ (- e) in
      Some (if s then - a else a)
  | _ => None
  end.

(* ---- bit patterns ---- *)
Definition f64_nan_bits : Z := 9221120237041090561. (* 0x7FF8000000000001 *)

Definition f64_to_bits (f : f64) : Z :=
  match f with
  | S754_zero s => if s then 9223372036854775808 else 0
  | S754_infinity s =>
      (if s then 9223372036854775808 else 0) + 9218868437227405312
  | S754_nan => f64_nan_bits
  | S754_finite s m e =>
      (if s then 9223372036854775808 else 0) +
      (if 4503599627370496 <=? Zpos m
       then (e + 1075) * 4503599627370496 + (Zpos m - 4503599627370496)
       else Zpos m)
  end.

Definition f64_of_bits (z0 : Z) : f64 :=
  let z := z0 mod 18446744073709551616 in
  let s := 9223372036854775808 <=? z in
  let be := (z / 4503599627370496) mod 2048 in
  let frac := z mod 4503599627370496 in
  if be =? 2047 then
    (if frac =? 0 then S754_infinity s else S754_nan)
  else if be =? 0 then
    match frac with
    | Zpos p => S754_finite s p (-1074)
    | _ => S754_zero s
    end
  else
    match frac + 4503599627370496 with
    | Zpos p => S754_finite s p (be - 1075)
    | _ => S754_nan (* unreachable *)
    end.

(* ---- division with a short quotient ----
   Z.div_eucl is a bit-serial long division over the whole dividend, quadratic
   when both operands are large.  When the quotient is short (the usual case
   here: ~60 bits out of 1000-bit operands) the leading steps only copy the
   dividend into the remainder, so we start from the top lb bits of a directly
   and run the long division over the remaining s low bits only. *)
Fixpoint fde_loop (fuel : nat) (i : Z) (a b q r : Z) : Z * Z :=
  match fuel with
  | O => (q, r)
  | S f =>
      let r1 := 2 * r + (if Z.testbit a i then 1 else 0) in
      if b <=? r1 then fde_loop f (i - 1) a b (2 * q + 1) (r1 - b)
      else fde_loop f (i - 1) a b (2 * q) r1
  end.

(* = Z.div_eucl a b for a >= 0, b > 0 *)
Definition Zfast_div_eucl (a b : Z) : Z * Z :=
  if (a <=? 0) || (b <=? 0) then Z.div_eucl a b else
  let s := Z.log2 a - Z.log2 b + 1 in
  if s <=? 0 then (0, a)
  else if 160 <? s then Z.div_eucl a b
  else fde_loop (Z.to_nat s) (s - 1) a b 0 (Z.shiftr a s).

(* ---- correctly rounded rationals and decimals ---- *)
Definition loc_of_rem (r d : Z) : location :=
  if r =? 0 then loc_Exact else loc_Inexact (Z.compare (2 * r) d).

(* (-1)^s * n / d rounded to nearest even;  n >= 0, d > 0. *)
Definition f64_of_ratio (s : bool) (n d : Z) : f64 :=
  if n <=? 0 then S754_zero s else
  let k := Z.max 0 (66 + Z.log2 d - Z.log2 n) in
  let (q, r) := Zfast_div_eucl (n * 2 ^ k) d in
  binary_round_aux 53 1024 s q (- k) (loc_of_rem r d).

(* number of decimal digits of m > 0 *)
Fixpoint dd_loop (fuel : nat) (m k : Z) : Z :=
  match fuel with
  | O => k
  | S f => if 10 ^ k <=? m then dd_loop f m (k + 1) else k
  end.
Definition dec_digits (m : Z) : Z :=
  dd_loop 8 m (Z.max 0 ((Z.log2 m * 30103) / 100000 - 1)).

(* (-1)^s * m * 10^e10 rounded to nearest even (m >= 0).  The two guards are
   the ones in strconv's decimal.floatBits; they only avoid huge powers. *)
Definition f64_of_dec (s : bool) (m e10 : Z) : f64 :=
  if m <=? 0 then S754_zero s else
  let dp := dec_digits m + e10 in
  if 310 <? dp then S754_infinity s else
  if dp <? -330 then S754_zero s else
  if 0 <=? e10 then f64_of_ratio s (m * 10 ^ e10) 1
  else f64_of_ratio s m (10 ^ (- e10)).

(* ---- math.Pow10, exactly as math/pow10.go computes it ---- *)
Definition f64_pow10 (n : Z) : f64 :=
  if (0 <=? n) && (n <=? 308) then
    f64_mul (f64_of_dec false 1 (32 * (n / 32))) (f64_of_dec false 1 (n mod 32))
  else if (-323 <=? n) && (n <=? 0) then
    f64_div (f64_of_dec false 1 (- (32 * ((- n) / 32))))
            (f64_of_dec false 1 ((- n) mod 32))
  else if 0 <? n then S754_infinity false
  else S754_zero false.

(* ---- constants ---- *)
Definition f64_max_int64_f : f64 := f64_of_Z 9223372036854775807.   (* = 2^63 *)
Definition f64_min_int64_f : f64 := f64_of_Z (-9223372036854775808). (* = -2^63 *)
Definition f64_one : f64 := f64_of_Z 1.

(* ======================================================================= *)
(* Lemmas (no reals, no axioms)                                             *)
(* ======================================================================= *)

Lemma f64_add_comm : forall a b, f64_add a b = f64_add b a.
Proof.
  intros a b; unfold f64_add.
  destruct a as [sa|sa| |sa ma ea], b as [sb|sb| |sb mb eb];
    cbn [SFadd]; try reflexivity;
    try (destruct sa, sb; reflexivity).
  rewrite (Z.min_comm eb ea).
  rewrite (Z.add_comm (cond_Zopp sb _)).
  reflexivity.
Qed.

Lemma f64_mul_comm : forall a b, f64_mul a b = f64_mul b a.
Proof.
  intros a b; unfold f64_mul.
  destruct a as [sa|sa| |sa ma ea], b as [sb|sb| |sb mb eb];
    cbn [SFmul]; try reflexivity;
    try (rewrite (xorb_comm sb sa); reflexivity).
  rewrite (xorb_comm sb sa), (Pos.mul_comm mb ma), (Z.add_comm eb ea).
  reflexivity.
Qed.

Lemma f64_neg_involutive : forall a, f64_neg (f64_neg a) = a.
Proof.
  intros [s|s| |s m e]; cbn [f64_neg SFopp]; rewrite ?negb_involutive; reflexivity.
Qed.

(* ---- bit-pattern round trip ---- *)
Lemma digits2_pos_size : forall p, digits2_pos p = Pos.size p.
Proof. induction p; simpl; congruence. Qed.

Lemma digits2_bounds : forall m,
  2 ^ (Zpos (digits2_pos m) - 1) <= Zpos m < 2 ^ Zpos (digits2_pos m).
Proof.
  intros m. rewrite digits2_pos_size.
  pose proof (Pos.size_gt m) as Hgt. pose proof (Pos.size_le m) as Hle.
  assert (Hp : Zpos (2 ^ Pos.size m) = 2 ^ Zpos (Pos.size m)) by apply Pos2Z.inj_pow.
  split.
  - assert (2 ^ Zpos (Pos.size m) <= 2 * Zpos m).
    { rewrite <- Hp. change (2 * Zpos m) with (Zpos m~0). exact Hle. }
    replace (Zpos (Pos.size m)) with (Zpos (Pos.size m) - 1 + 1) in H by lia.
    rewrite Z.pow_add_r in H by lia. lia.
  - rewrite <- Hp. exact Hgt.
Qed.

Local Ltac zdm := Z.to_euclidean_division_equations; lia.

Lemma bits_fields : forall (s : bool) (be frac : Z),
  0 <= be < 2048 -> 0 <= frac < 4503599627370496 ->
  let z := (if s then 9223372036854775808 else 0) + (be * 4503599627370496 + frac) in
  z mod 18446744073709551616 = z /\
  (9223372036854775808 <=? z) = s /\
  (z / 4503599627370496) mod 2048 = be /\
  z mod 4503599627370496 = frac.
Proof.
  intros s be frac Hbe Hfrac z.
  assert (Hz : 0 <= z < 18446744073709551616) by (subst z; destruct s; lia).
  repeat split.
  - apply Z.mod_small; exact Hz.
  - subst z; destruct s; [apply Z.leb_le | apply Z.leb_gt]; lia.
  - subst z; destruct s; zdm.
  - subst z; destruct s; zdm.
Qed.

Lemma f64_of_bits_to_bits : forall f,
  valid_f64 f = true -> f64_of_bits (f64_to_bits f) = f.
Proof.
  intros [s|s| |s m e] Hv.
  - destruct s; vm_compute; reflexivity.
  - destruct s; vm_compute; reflexivity.
  - vm_compute; reflexivity.
  - unfold valid_f64, valid_binary, bounded, canonical_mantissa, fexp, emin in Hv.
    apply andb_true_iff in Hv. destruct Hv as [Hc He].
    apply Zeq_bool_eq in Hc. apply Zle_bool_imp_le in He.
    pose proof (digits2_bounds m) as Hd.
    set (d := Zpos (digits2_pos m)) in *.
    assert (Hdpos : 0 < d) by (subst d; lia).
    cbn [f64_to_bits].
    destruct (4503599627370496 <=? Zpos m) eqn:Hm.
    + apply Z.leb_le in Hm.
      assert (Hd53 : d = 53).
      { destruct (Z_lt_le_dec d 53) as [Hlt|Hge].
        - exfalso.
          assert (2 ^ d <= 2 ^ 52) by (apply Z.pow_le_mono_r; lia).
          change (2 ^ 52) with 4503599627370496 in H. lia.
        - lia. }
      rewrite Hd53 in Hd. change (2 ^ (53 - 1)) with 4503599627370496 in Hd.
      change (2 ^ 53) with 9007199254740992 in Hd.
      assert (Hel : -1074 <= e <= 971) by lia.
      pose proof (bits_fields s (e + 1075) (Zpos m - 4503599627370496)
                    ltac:(lia) ltac:(lia)) as Hf.
      cbv zeta in Hf. destruct Hf as (H1 & H2 & H3 & H4).
      unfold f64_of_bits. rewrite H1, H2, H3, H4.
      replace (e + 1075 =? 2047) with false by (symmetry; apply Z.eqb_neq; lia).
      replace (e + 1075 =? 0) with false by (symmetry; apply Z.eqb_neq; lia).
      replace (Zpos m - 4503599627370496 + 4503599627370496) with (Zpos m) by lia.
      replace (e + 1075 - 1075) with e by lia. reflexivity.
    + apply Z.leb_gt in Hm.
      assert (Hd52 : d <= 52).
      { destruct (Z_lt_le_dec 52 d) as [Hlt|Hge]; [exfalso | lia].
        assert (2 ^ 52 <= 2 ^ (d - 1)) by (apply Z.pow_le_mono_r; lia).
        change (2 ^ 52) with 4503599627370496 in H. lia. }
      assert (Hee : e = -1074) by lia. subst e.
      pose proof (bits_fields s 0 (Zpos m) ltac:(lia) ltac:(lia)) as Hf.
      cbv zeta in Hf.
      change (0 * 4503599627370496 + Zpos m) with (Zpos m) in Hf.
      destruct Hf as (H1 & H2 & H3 & H4).
      unfold f64_of_bits.
      rewrite H1, H2, H3, H4. reflexivity.
Qed.
