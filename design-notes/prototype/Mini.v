From Coq Require Import List ZArith String Bool Lia.
Import ListNotations.
Notation one := 1%nat.

(* ---------- data ---------- *)
Inductive json := JNull | JInt (z:Z) | JArr (l:list json) | JObj (l:list (string*json)).

Inductive step :=
| SRoot | SCur | SKey (k:string) | SAnyArr | SAny (first last:nat) | SFilter (p:pred) | SLit (z:Z)
with pred :=
| PExists (e:list step) | PEq (l r:list step) | PAnd (a b:pred) | PNot (a:pred) | PIsUnknown (a:pred).

Inductive err := EVerbose (n:nat) | EHard (n:nat) | ECancel.
Inductive status := OK | NotFound | Failed.
Inductive outcome3 := PT | PF | PU.

Fixpoint lookup (k:string) (l:list (string*json)) : option json :=
  match l with [] => None | (k',v)::r => if String.eqb k k' then Some v else lookup k r end.

Definition children (v:json) : option (list json) :=
  match v with JArr l => Some l | JObj l => Some (map snd l) | _ => None end.

(* ---------- executor state ---------- *)
Record st := { root: json; cur: json; ign: bool; verbose: bool; lax: bool; polls: nat; cancel_at: option nat }.
Definition set_cur s c := {| root:=root s; cur:=c; ign:=ign s; verbose:=verbose s; lax:=lax s; polls:=polls s; cancel_at:=cancel_at s |}.
Definition set_ign s b := {| root:=root s; cur:=cur s; ign:=b; verbose:=verbose s; lax:=lax s; polls:=polls s; cancel_at:=cancel_at s |}.
Definition set_verbose s b := {| root:=root s; cur:=cur s; ign:=ign s; verbose:=b; lax:=lax s; polls:=polls s; cancel_at:=cancel_at s |}.
Definition tick s := {| root:=root s; cur:=cur s; ign:=ign s; verbose:=verbose s; lax:=lax s; polls:=S (polls s); cancel_at:=cancel_at s |}.
Definition done_now (s:st) : bool := match cancel_at s with Some k => (k <=? polls s)%nat | None => false end.

Inductive req :=
| RItem (n:list step) (v:json) (found:option (list json)) (unwrap:bool)
| RAny (n:list step) (vs:list json) (found:option (list json)) (level first last:nat) (ignp unwrapNext:bool)
| RBool (p:pred) (v:json).

Record resp := { rstat: status; rerr: option err; rfound: option (list json); rpred: outcome3 }.
Definition mk s e f := {| rstat:=s; rerr:=e; rfound:=f; rpred:=PU |}.
Definition mkp p e := {| rstat:=OK; rerr:=e; rfound:=None; rpred:=p |}.

Inductive outcome (A:Type) := Ret (a:A) | OutOfFuel.
Arguments Ret {A}. Arguments OutOfFuel {A}.
Definition bindo {A B} (x:outcome A) (f:A->outcome B) := match x with Ret a => f a | OutOfFuel => OutOfFuel end.
Notation "'do' x <- a ; b" := (bindo a (fun x => b)) (at level 200, x pattern, a at level 100, b at level 200).

Section Body.
Variable self : req -> st -> outcome (resp * st).

Definition returnVerboseError (s:st) (e:err) f : resp :=
  if verbose s then mk Failed (Some e) f else mk Failed None f.

(* executeNextItem: here "next" is simply the tail of the chain *)
Definition executeNextItem (next:list step) (v:json) found (s:st) : outcome (resp*st) :=
  match next with
  | [] => Ret (mk OK None (option_map (fun l => l ++ [v]) found), s)
  | _ => self (RItem next v found (lax s)) s
  end.

Definition execKey (k:string) (next:list step) (v:json) (found:option (list json)) (unwrap:bool) (s:st) : outcome (resp*st) :=
  match v with
  | JObj l => match lookup k l with
              | Some x => executeNextItem next x found s
              | None => if ign s then Ret (mk NotFound None found, s)
                        else Ret (returnVerboseError s (EVerbose 1) found, s)
              end
  | JArr l => if unwrap then self (RAny (SKey k :: next) l found one one one false false) s
              else if ign s then Ret (mk NotFound None found, s) else Ret (returnVerboseError s (EVerbose 2) found, s)
  | _ => if ign s then Ret (mk NotFound None found, s) else Ret (returnVerboseError s (EVerbose 2) found, s)
  end.

Definition execAnyArr (next:list step) (v:json) (found:option (list json)) (s:st) : outcome (resp*st) :=
  match v with
  | JArr l => self (RAny next l found one one one false (lax s)) s
  | _ => if lax s then executeNextItem next v found s
         else if ign s then Ret (mk NotFound None found, s) else Ret (returnVerboseError s (EVerbose 3) found, s)
  end.

Definition execAny (first last:nat) (next:list step) (v:json) (found:option (list json)) (s:st) : outcome (resp*st) :=
  let cont (s':st) found' :=
    match children v with
    | Some vs => do (r, s2) <- self (RAny next vs found' one first last true (lax s')) s'; Ret (r, s2)
    | None => Ret (mk NotFound None found', s')
    end in
  match first with
  | O => let saved := ign s in
         do (r, s1) <- executeNextItem next v found (set_ign s true);
         let s1' := set_ign s1 saved in
         match rstat r, found with
         | Failed, _ => Ret (r, s1')
         | OK, None => Ret (r, s1')
         | _, _ => (* NB the Go code keeps ign = true until function return (defer) *)
              do (r2, s2) <- cont (set_ign s1 true) (rfound r); Ret (r2, set_ign s2 saved)
         end
  | _ => cont s found
  end.

Definition execFilter (p:pred) (next:list step) (v:json) (found:option (list json)) (unwrap:bool) (s:st) : outcome (resp*st) :=
  match v, unwrap with
  | JArr l, true => self (RAny (SFilter p :: next) l found one one one false false) s
  | _, _ =>
    let prev := cur s in
    do (r, s1) <- self (RBool p v) (set_cur s v);
    let s1' := set_cur s1 prev in
    match rpred r with
    | PT => executeNextItem next v found s1'
    | _ => match rerr r with Some e => Ret (mk Failed (Some e) found, s1') | None => Ret (mk NotFound None found, s1') end
    end
  end.

Definition execItem (n:list step) (v:json) (found:option (list json)) (unwrap:bool) (s0:st) : outcome (resp*st) :=
  if done_now s0 then Ret (mk Failed (Some ECancel) found, tick s0) else
  let s := tick s0 in
  match n with
  | [] => Ret (mk OK None (option_map (fun l => l ++ [v]) found), s)
  | SRoot :: next => executeNextItem next (root s) found s
  | SCur :: next => executeNextItem next (cur s) found s
  | SLit z :: next => match next, found with [], None => Ret (mk OK None None, s) | _, _ => executeNextItem next (JInt z) found s end
  | SKey k :: next => execKey k next v found unwrap s
  | SAnyArr :: next => execAnyArr next v found s
  | SAny f l :: next => execAny f l next v found s
  | SFilter p :: next => execFilter p next v found unwrap s
  end.

(* executeAnyItem *)
Fixpoint anyLoop (n:list step) (vs:list json) (found:option (list json)) (level first last:nat) (ignp unwrapNext:bool) (res:resp) (s:st) (saved:bool)
  : outcome (resp*st) :=
  match vs with
  | [] => Ret (res, s)
  | v :: rest =>
    do (r1, s1) <-
      (if (first <=? level)%nat then
         match n, found with
         | _ :: _, _ => let s' := if ignp then set_ign s true else s in
                        self (RItem n v (rfound res) unwrapNext) s'
         | [], Some _ => Ret (mk OK None (option_map (fun l => l ++ [v]) (rfound res)), s)
         | [], None => Ret (mk OK None None, s)
         end
       else Ret (res, s));
    if match rstat r1, found with Failed, _ => true | OK, None => true | _, _ => false end
    then Ret (r1, s1) else
    do (r2, s2) <-
      (if (level <? last)%nat then
         match children v with
         | Some cs => self (RAny n cs (rfound r1) (S level) first last ignp unwrapNext) s1
         | None => Ret (mk NotFound None (rfound r1), s1)
         end
       else Ret (r1, s1));
    if match rstat r2, found with Failed, _ => true | OK, None => true | _, _ => false end
    then Ret (r2, s2) else
    anyLoop n rest found level first last ignp unwrapNext (mk (rstat r2) (rerr r2) (rfound r2)) s2 saved
  end.

Definition execAnyItem (n:list step) (vs:list json) (found:option (list json)) (level first last:nat) (ignp unwrapNext:bool) (s:st) : outcome (resp*st) :=
  if (last <? level)%nat then Ret (mk NotFound None found, s) else
  let saved := ign s in
  do (r, s1) <- anyLoop n vs found level first last ignp unwrapNext (mk NotFound None found) s saved;
  let s1' := set_ign s1 saved in
  let grew := match found, rfound r with Some a, Some b => (List.length a <? List.length b)%nat | _, _ => false end in
  match rstat r, rerr r with
  | Failed, _ => Ret (r, s1')
  | _, Some _ => Ret (r, s1')
  | _, None => if grew then Ret (mk OK None (rfound r), s1') else Ret (r, s1')
  end.

(* operands of predicates: executeItemOptUnwrapResultSilent with unwrap=true *)
Definition unwrapSeq (l:list json) : list json :=
  flat_map (fun x => match x with JArr es => es | _ => [x] end) l.

Definition operand (e:list step) (v:json) (unwrap:bool) (found:option (list json)) (s:st) : outcome (resp*st) :=
  let vb := verbose s in
  let s0 := set_verbose s false in
  do (r, s1) <-
     (if unwrap && lax s then
        do (r, s1) <- self (RItem e v (Some []) (lax s0)) s0;
        match rstat r with
        | Failed => Ret (r, s1)
        | _ => Ret (mk OK None (option_map (fun acc => acc ++ unwrapSeq (match rfound r with Some l => l | None => [] end)) found), s1)
        end
      else self (RItem e v found (lax s0)) s0);
  Ret (r, set_verbose s1 vb).

Definition cmpInt (a b:json) : outcome3 :=
  match a, b with
  | JNull, JNull => PT | JNull, _ => PF | _, JNull => PF
  | JInt x, JInt y => if (x =? y)%Z then PT else PF
  | _, _ => PU end.

Fixpoint pairs (strict:bool) (ls rs:list json) (hasErr found:bool) : outcome3 :=
  match ls with
  | [] => if found then PT else if hasErr then PU else PF
  | l :: ls' =>
    (fix inner rs' hasErr found :=
       match rs' with
       | [] => pairs strict ls' rs hasErr found
       | r :: rs'' =>
         match cmpInt l r with
         | PU => if strict then PU else inner rs'' true found
         | PT => if strict then inner rs'' hasErr true else PT
         | PF => inner rs'' hasErr found
         end
       end) rs hasErr found
  end.

Definition execBool (p:pred) (v:json) (s:st) : outcome (resp*st) :=
  match p with
  | PAnd a b =>
    do (r, s1) <- self (RBool a v) s;
    match rpred r, rerr r with
    | PF, _ => Ret (r, s1) | _, Some _ => Ret (r, s1)
    | _, _ => do (r2, s2) <- self (RBool b v) s1;
              match rpred r2 with PT => Ret (mkp (rpred r) (rerr r2), s2) | _ => Ret (r2, s2) end
    end
  | PNot a =>
    do (r, s1) <- self (RBool a v) s;
    match rpred r with PU => Ret (r, s1) | PT => Ret (mkp PF None, s1) | PF => Ret (mkp PT None, s1) end
  | PIsUnknown a =>
    do (r, s1) <- self (RBool a v) s;
    match rerr r with Some e => Ret (mkp PU (Some e), s1) | None =>
    Ret (mkp (match rpred r with PU => PT | _ => PF end) None, s1) end
  | PExists e =>
    if lax s then
      do (r, s1) <- operand e v false None s;
      match rstat r with Failed => Ret (mkp PU (rerr r), s1) | OK => Ret (mkp PT None, s1) | NotFound => Ret (mkp PF None, s1) end
    else
      do (r, s1) <- operand e v false (Some []) s;
      match rstat r with
      | Failed => Ret (mkp PU (rerr r), s1)
      | _ => match rfound r with Some [] => Ret (mkp PF None, s1) | _ => Ret (mkp PT None, s1) end
      end
  | PEq l r =>
    do (rl, s1) <- operand l v true (Some []) s;
    match rstat rl with
    | Failed => Ret (mkp PU (rerr rl), s1)
    | _ =>
      do (rr, s2) <- operand r v true (Some []) s1;
      match rstat rr with
      | Failed => Ret (mkp PU (rerr rr), s2)
      | _ => Ret (mkp (pairs (negb (lax s2))
                         (match rfound rl with Some x => x | None => [] end)
                         (match rfound rr with Some x => x | None => [] end) false false) None, s2)
      end
    end
  end.

Definition body (q:req) (s:st) : outcome (resp*st) :=
  match q with
  | RItem n v found unwrap => execItem n v found unwrap s
  | RAny n vs found level first last ignp un => execAnyItem n vs found level first last ignp un s
  | RBool p v => execBool p v s
  end.
End Body.

Fixpoint run (fuel:nat) : req -> st -> outcome (resp*st) :=
  match fuel with O => fun _ _ => OutOfFuel | S n => body (run n) end.

(* ---------- Frame lemma: context is restored ---------- *)
Definition ctx_eq (a b:st) := root a = root b /\ cur a = cur b /\ ign a = ign b /\ verbose a = verbose b /\ lax a = lax b /\ cancel_at a = cancel_at b.
Definition frames (f: req -> st -> outcome (resp*st)) :=
  forall q s r s', f q s = Ret (r, s') -> ctx_eq s s'.

Lemma ctx_eq_refl s : ctx_eq s s. Proof. repeat split. Qed.
Lemma st_eta s : s = {| root:=root s; cur:=cur s; ign:=ign s; verbose:=verbose s; lax:=lax s; polls:=polls s; cancel_at:=cancel_at s |}.
Proof. destruct s; reflexivity. Qed.

Ltac inv H := inversion H; subst; clear H.
Ltac dob :=
  match goal with
  | H : bindo ?x _ = Ret _ |- _ => let E := fresh "E" in destruct x as [[? ?]|] eqn:E; cbn [bindo] in H; [|discriminate H]
  end.

Lemma ctx_eq_trans a b c : ctx_eq a b -> ctx_eq b c -> ctx_eq a c.
Proof. unfold ctx_eq; intuition congruence. Qed.
Lemma ctx_eq_sym a b : ctx_eq a b -> ctx_eq b a.
Proof. unfold ctx_eq; intuition congruence. Qed.

(* "frame up to": running from a state that differs from s in some fields, then restoring them *)
Lemma restore_ign s s1 : ctx_eq (set_ign s true) s1 -> ctx_eq s (set_ign s1 (ign s)).
Proof. unfold ctx_eq; cbn; intuition. Qed.
Lemma restore_ign' s s1 b : ctx_eq (set_ign s b) s1 -> ctx_eq s (set_ign s1 (ign s)).
Proof. unfold ctx_eq; cbn; intuition. Qed.
Lemma restore_cur s s1 v : ctx_eq (set_cur s v) s1 -> ctx_eq s (set_cur s1 (cur s)).
Proof. unfold ctx_eq; cbn; intuition. Qed.
Lemma restore_verbose s s1 b : ctx_eq (set_verbose s b) s1 -> ctx_eq s (set_verbose s1 (verbose s)).
Proof. unfold ctx_eq; cbn; intuition. Qed.

Section FrameBody.
Variable self : req -> st -> outcome (resp * st).
Hypothesis Hself : frames self.

Ltac ret := match goal with H : Ret _ = Ret _ |- _ => inv H end.
Ltac selfstep K :=
  match goal with
  | H : self ?q ?s = Ret (_, ?s') |- _ =>
      lazymatch goal with
      | K' : ctx_eq s s' |- _ => fail
      | _ => pose proof (Hself _ _ _ _ H) as K
      end
  end.

Lemma frame_next next v found s r s' :
  executeNextItem self next v found s = Ret (r, s') -> ctx_eq s s'.
Proof.
  unfold executeNextItem; destruct next; intro H; [ret; apply ctx_eq_refl| eapply Hself; eauto].
Qed.

Lemma frame_key k next v found u s r s' : execKey self k next v found u s = Ret (r, s') -> ctx_eq s s'.
Proof.
  unfold execKey; intro H.
  destruct v; try (destruct (ign s); ret; apply ctx_eq_refl).
  - destruct u; [eapply Hself; eauto|destruct (ign s); ret; apply ctx_eq_refl].
  - destruct (lookup k l); [eapply frame_next; eauto|destruct (ign s); ret; apply ctx_eq_refl].
Qed.

Lemma frame_anyarr next v found s r s' : execAnyArr self next v found s = Ret (r, s') -> ctx_eq s s'.
Proof.
  unfold execAnyArr; intro H.
  destruct v; try (destruct (lax s); [eapply frame_next; eauto|destruct (ign s); ret; apply ctx_eq_refl]).
  eapply Hself; eauto.
Qed.

Definition ign_free (a b:st) := root a = root b /\ cur a = cur b /\ verbose a = verbose b /\ lax a = lax b /\ cancel_at a = cancel_at b.

Lemma frame_any f l next v found s r s' : execAny self f l next v found s = Ret (r, s') -> ctx_eq s s'.
Proof.
  unfold execAny; intro H.
  assert (C: forall s0 fnd r s', ign s0 = true -> ign_free s s0 ->
     (do (r2, s2) <- match children v with
        | Some vs => do (r, s2) <- self (RAny next vs fnd one 0 l true (lax s0)) s0; Ret (r, s2)
        | None => Ret (mk NotFound None fnd, s0) end; Ret (r2, set_ign s2 (ign s))) = Ret (r, s') -> ctx_eq s s').
  { clear H. intros s0 fnd r1 s1 I1 I2 H. dob.
    destruct (children v).
    - dob. ret. ret. selfstep K. revert K I2; unfold ctx_eq, ign_free; cbn; intuition congruence.
    - ret. ret. revert I2; unfold ctx_eq, ign_free; cbn; intuition congruence. }
  destruct f.
  - dob. apply frame_next in E.
    assert (R: ctx_eq s (set_ign s0 (ign s))) by (eapply restore_ign; eauto).
    destruct (rstat r0); [destruct found| |]; try (ret; exact R);
      (eapply C; [| |exact H]; cbn; revert E; unfold ctx_eq, ign_free; cbn; intuition congruence).
  - destruct (children v); [dob; ret; eapply Hself; eauto|ret; apply ctx_eq_refl].
Qed.

Lemma frame_filter p next v found u s r s' : execFilter self p next v found u s = Ret (r, s') -> ctx_eq s s'.
Proof.
  unfold execFilter; intro H.
  assert (G: forall r s', (do (r0, s1) <- self (RBool p v) (set_cur s v);
        match rpred r0 with PT => executeNextItem self next v found (set_cur s1 (cur s))
        | _ => match rerr r0 with Some e => Ret (mk Failed (Some e) found, set_cur s1 (cur s)) | None => Ret (mk NotFound None found, set_cur s1 (cur s)) end end) = Ret (r, s') -> ctx_eq s s').
  { clear - Hself; intros r s' H. dob. selfstep K. apply restore_cur in K.
    destruct (rpred r0); try (destruct (rerr r0); ret; assumption).
    apply frame_next in H. eapply ctx_eq_trans; eauto. }
  destruct v; try (eapply G; eauto; fail).
  destruct u; [eapply Hself; eauto|eapply G; eauto].
Qed.

Lemma ctx_tick s : ctx_eq s (tick s). Proof. repeat split. Qed.

Lemma frame_item n v found u s r s' : execItem self n v found u s = Ret (r, s') -> ctx_eq s s'.
Proof.
  unfold execItem; intro H. destruct (done_now s); [ret; apply ctx_tick|].
  eapply ctx_eq_trans; [apply ctx_tick|].
  destruct n as [|[]]; try (eapply frame_next; eauto; fail).
  - ret; apply ctx_eq_refl.
  - eapply frame_key; eauto.
  - eapply frame_anyarr; eauto.
  - eapply frame_any; eauto.
  - eapply frame_filter; eauto.
  - destruct n; [destruct found; [eapply frame_next; eauto|ret; apply ctx_eq_refl]|eapply frame_next; eauto].
Qed.


Lemma frame_anyloop n vs found level first last ignp un res s saved r s' :
  anyLoop self n vs found level first last ignp un res s saved = Ret (r, s') -> ign_free s s'.
Proof.
  revert res s. induction vs as [|v rest IH]; intros res s H; cbn [anyLoop] in H.
  - ret. repeat split.
  - dob.
    assert (A: ign_free s s0).
    { destruct (first <=? level)%nat; [|ret; repeat split].
      destruct n; [destruct found; ret; repeat split|].
      selfstep K. destruct ignp; revert K; unfold ctx_eq, ign_free; cbn; intuition congruence. }
    destruct (match rstat r0 with Failed => true | OK => match found with None => true | _ => false end | _ => false end) eqn:B.
    + destruct (rstat r0); try discriminate; try destruct found; try discriminate; ret; assumption.
    + assert (H' : (do (r2, s2) <-
        (if (level <? last)%nat then match children v with
         | Some cs => self (RAny n cs (rfound r0) (S level) first last ignp un) s0
         | None => Ret (mk NotFound None (rfound r0), s0) end else Ret (r0, s0));
        if match rstat r2, found with Failed, _ => true | OK, None => true | _, _ => false end
        then Ret (r2, s2) else anyLoop self n rest found level first last ignp un (mk (rstat r2) (rerr r2) (rfound r2)) s2 saved) = Ret (r, s')).
      { destruct (rstat r0); try destruct found; try discriminate; exact H. }
      clear H. dob.
      assert (A2: ign_free s0 s1).
      { destruct (level <? last)%nat; [|ret; repeat split].
        destruct (children v); [selfstep K; revert K; unfold ctx_eq, ign_free; intuition congruence|ret; repeat split]. }
      destruct (match rstat r1 with Failed => true | OK => match found with None => true | _ => false end | _ => false end) eqn:B2.
      * destruct (rstat r1); try discriminate; try destruct found; try discriminate; ret;
          revert A A2; unfold ign_free; intuition congruence.
      * assert (H'' : anyLoop self n rest found level first last ignp un (mk (rstat r1) (rerr r1) (rfound r1)) s1 saved = Ret (r, s')).
        { destruct (rstat r1); try destruct found; try discriminate; exact H'. }
        apply IH in H''. revert A A2 H''; unfold ign_free; intuition congruence.
Qed.

Lemma frame_anyitem n vs found level first last ignp un s r s' :
  execAnyItem self n vs found level first last ignp un s = Ret (r, s') -> ctx_eq s s'.
Proof.
  unfold execAnyItem; intro H.
  destruct (last <? level)%nat; [ret; apply ctx_eq_refl|].
  dob. apply frame_anyloop in E.
  assert (ctx_eq s (set_ign s0 (ign s))) by (revert E; unfold ign_free, ctx_eq; cbn; intuition).
  destruct (rstat r0); destruct (rerr r0); try (ret; assumption);
  match goal with H0 : context[if ?c then _ else _] |- _ => destruct c end; ret; assumption.
Qed.

Lemma frame_operand e v u found s r s' : operand self e v u found s = Ret (r, s') -> ctx_eq s s'.
Proof.
  unfold operand; intro H. dob. ret.
  eapply restore_verbose with (b:=false).
  destruct (u && lax s)%bool.
  - dob. selfstep K. destruct (rstat r0); ret; assumption.
  - eapply Hself; eauto.
Qed.

Ltac case_stat := match goal with H0 : context[match rstat ?x with _ => _ end] |- _ => destruct (rstat x) end.
Ltac case_pred := match goal with H0 : context[match rpred ?x with _ => _ end] |- _ => destruct (rpred x) end.
Ltac case_err := match goal with H0 : context[match rerr ?x with _ => _ end] |- _ => destruct (rerr x) end.
Ltac opstep K := match goal with E0 : operand self _ _ _ _ _ = Ret _ |- _ => apply frame_operand in E0; rename E0 into K end.

Lemma frame_bool p v s r s' : execBool self p v s = Ret (r, s') -> ctx_eq s s'.
Proof.
  unfold execBool; intro H. destruct p as [e|el er|a b|a|a].
  - destruct (lax s); dob; opstep K.
    + case_stat; ret; assumption.
    + case_stat; try (ret; assumption);
        match goal with H0 : context[match rfound ?x with _ => _ end] |- _ => destruct (rfound x) as [[|]|] end; ret; assumption.
  - dob. opstep K. case_stat; try (ret; assumption);
      dob; opstep K2; (case_stat; ret; eapply ctx_eq_trans; eauto).
  - dob. selfstep K.
    case_pred; try case_err; try (ret; assumption);
      dob; selfstep K2; (case_pred; ret; eapply ctx_eq_trans; eauto).
  - dob. selfstep K. case_pred; ret; assumption.
  - dob. selfstep K. case_err; ret; assumption.
Qed.

Lemma frame_body : frames (body self).
Proof.
  intros q s r s' H. destruct q; cbn [body] in H.
  - eapply frame_item; eauto.
  - eapply frame_anyitem; eauto.
  - eapply frame_bool; eauto.
Qed.
End FrameBody.

Theorem frame_run : forall fuel, frames (run fuel).
Proof.
  induction fuel as [|n IH]; [intros q s r s' H; discriminate H|].
  cbn [run]. apply frame_body. exact IH.
Qed.
Print Assumptions frame_run.
