From Coq Require Import List ZArith String Bool Lia.
Import ListNotations.
Require Import Mini.

(* ---------- traces ---------- *)
Definition trace := (list json * option err)%type.
Definition tnil : trace := ([], None).
Definition tfail (e:err) : trace := ([], Some e).
Definition tapp (a b:trace) : trace :=
  match snd a with Some e => a | None => (fst a ++ fst b, snd b) end.
Fixpoint tbind_list (l:list json) (k:json -> trace) : trace :=
  match l with [] => tnil | x :: r => tapp (k x) (tbind_list r k) end.

Section Spec.
Variables (rt:json) (laxm:bool).

(* element v sits at depth [level]; apply k where first <= level, then descend while level < last *)
Fixpoint desc_v (k:json -> trace) (first last:nat) (level:nat) (v:json) {struct v} : trace :=
  tapp (if (first <=? level)%nat then k v else tnil)
       (if (level <? last)%nat then
          match v with
          | JArr l => (fix go (l:list json) : trace :=
                         match l with [] => tnil | x :: r => tapp (desc_v k first last (S level) x) (go r) end) l
          | JObj l => (fix go (l:list (string*json)) : trace :=
                         match l with [] => tnil | x :: r => tapp (desc_v k first last (S level) (snd x)) (go r) end) l
          | _ => tnil
          end else tnil).
Definition descend (k:json -> trace) (vs:list json) (level first last:nat) : trace :=
  if (last <? level)%nat then tnil else tbind_list vs (desc_v k first last level).

Definition hard (e:option err) : option err := match e with Some (EVerbose _) => None | x => x end.

Fixpoint sem_step (s:step) (k:bool -> json -> trace) (c:json) (ig u:bool) (v:json) {struct s} : trace :=
  match s with
  | SRoot => k ig rt
  | SCur => k ig c
  | SLit z => k ig (JInt z)
  | SKey key =>
      let one x := match x with
                   | JObj l => match lookup key l with Some y => k ig y | None => if ig then tnil else tfail (EVerbose 1) end
                   | _ => if ig then tnil else tfail (EVerbose 2) end in
      match v with JArr l => if u then tbind_list l one else one v | _ => one v end
  | SAnyArr => match v with
               | JArr l => tbind_list l (k ig)
               | _ => if laxm then k ig v else if ig then tnil else tfail (EVerbose 3) end
  | SAny f l =>
      tapp (match f with O => k true v | _ => tnil end)
           (match children v with Some cs => descend (k true) cs 1 f l | None => tnil end)
  | SFilter p =>
      let one x := match sem_pred p x ig x with
                   | (PT, _) => k ig x
                   | (_, Some e) => tfail e
                   | (_, None) => tnil end in
      match v with JArr l => if u then tbind_list l one else one v | _ => one v end
  end
with sem_pred (p:pred) (c:json) (ig:bool) (v:json) {struct p} : outcome3 * option err :=
  let chain := fix chain (n:list step) (c:json) (ig u:bool) (v:json) {struct n} : trace :=
       match n with
       | [] => ([v], None)
       | s :: rest => sem_step s (fun ig' x => chain rest c ig' laxm x) c ig u v
       end in
  match p with
  | PExists e =>
      let t := chain e c ig laxm v in
      if laxm then match fst t, snd t with _ :: _, _ => (PT, None) | [], Some er => (PU, hard (Some er)) | [], None => (PF, None) end
      else match snd t, fst t with Some er, _ => (PU, hard (Some er)) | None, [] => (PF, None) | None, _ => (PT, None) end
  | PEq l r =>
      let tl := chain l c ig laxm v in
      match snd tl with Some er => (PU, hard (Some er)) | None =>
        let tr := chain r c ig laxm v in
        match snd tr with Some er => (PU, hard (Some er)) | None =>
          let unw x := if laxm then unwrapSeq x else x in
          (pairs (negb laxm) (unw (fst tl)) (unw (fst tr)) false false, None) end end
  | PAnd a b =>
      match sem_pred a c ig v with
      | (PF, e) => (PF, e) | (r, Some e) => (r, Some e)
      | (r, None) => match sem_pred b c ig v with (PT, e2) => (r, e2) | x => x end
      end
  | PNot a => match sem_pred a c ig v with (PU, e) => (PU, e) | (PT, _) => (PF, None) | (PF, _) => (PT, None) end
  | PIsUnknown a => match sem_pred a c ig v with (_, Some e) => (PU, Some e) | (PU, None) => (PT, None) | (_, None) => (PF, None) end
  end.

Fixpoint sem_chain (n:list step) (c:json) (ig u:bool) (v:json) {struct n} : trace :=
  match n with
  | [] => ([v], None)
  | s :: rest => sem_step s (fun ig' x => sem_chain rest c ig' laxm x) c ig u v
  end.
End Spec.
