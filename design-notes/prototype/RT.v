From Coq Require Import List ZArith String Bool Lia Arith.
Import ListNotations.

Inductive op := Add | Sub | Mul | Div.
Definition prec (o:op) : nat := match o with Add | Sub => 3 | Mul | Div => 4 end.

Inductive tok := TRoot | TInt (z:Z) | TOp (o:op) | TLP | TRP | TAcc (k:string).

Inductive expr :=
| Root (nx:list string)
| Int (z:Z) (nx:list string)
| Bin (o:op) (l r:expr) (nx:list string)
| Neg (e:expr) (nx:list string).

Definition prio (e:expr) : nat :=
  match e with Root _ | Int _ _ => 6 | Bin o _ _ _ => prec o | Neg _ _ => 5 end.
Definition nx_of (e:expr) := match e with Root n | Int _ n | Bin _ _ _ n | Neg _ n => n end.
Definition link (e:expr) (more:list string) : expr :=
  match e with
  | Root n => Root (n ++ more) | Int z n => Int z (n ++ more)
  | Bin o l r n => Bin o l r (n ++ more) | Neg x n => Neg x (n ++ more) end.
Definition fold_neg (e:expr) : expr :=
  match e with Int z [] => Int (- z) [] | _ => Neg e [] end.

(* ---------- printer (Go writeTo, with parentheses forced when an operator node has a chain) ---------- *)
Definition accs (n:list string) : list tok := map TAcc n.
Definition num (z:Z) : list tok := if (z <? 0)%Z then [TOp Sub; TInt (- z)] else [TInt z].
Definition isnil {A} (l:list A) := match l with [] => true | _ => false end.

Fixpoint pt (wp:bool) (e:expr) : list tok :=
  match e with
  | Root n => TRoot :: accs n
  | Int z n => if isnil n then num z else TLP :: num z ++ TRP :: accs n
  | Bin o l r n =>
      let body := pt (prio l <=? prec o) l ++ TOp o :: pt (prio r <=? prec o) r in
      if wp || negb (isnil n) then TLP :: body ++ TRP :: accs n else body
  | Neg x n =>
      let body := TOp Sub :: pt (prio x <=? 5) x in
      if wp || negb (isnil n) then TLP :: body ++ TRP :: accs n else body
  end.

(* ---------- reference parser (precedence climbing), fuel = recursion depth ---------- *)
Fixpoint take_accs (ts:list tok) : list string * list tok :=
  match ts with TAcc k :: r => let (a, b) := take_accs r in (k :: a, b) | _ => ([], ts) end.

Fixpoint parse_expr (fuel:nat) (minp:nat) (ts:list tok) {struct fuel} : option (expr * list tok) :=
  match fuel with O => None | S f =>
    match parse_unary f ts with
    | Some (lhs, ts') => loop f minp lhs ts'
    | None => None end end
with parse_unary (fuel:nat) (ts:list tok) {struct fuel} : option (expr * list tok) :=
  match fuel with O => None | S f =>
    match ts with
    | TOp Sub :: ts' => match parse_unary f ts' with Some (e, ts'') => Some (fold_neg e, ts'') | None => None end
    | TRoot :: ts' => let (n, r) := take_accs ts' in Some (Root n, r)
    | TInt z :: ts' => let (n, r) := take_accs ts' in Some (Int z n, r)
    | TLP :: ts' => match parse_expr f 0 ts' with
                    | Some (e, TRP :: ts'') => let (n, r) := take_accs ts'' in Some (link e n, r)
                    | _ => None end
    | _ => None
    end end
with loop (fuel:nat) (minp:nat) (lhs:expr) (ts:list tok) {struct fuel} : option (expr * list tok) :=
  match fuel with O => None | S f =>
    match ts with
    | TOp o :: ts' =>
        if (minp <=? prec o)%nat then
          match parse_expr f (S (prec o)) ts' with
          | Some (rhs, ts'') => loop f minp (Bin o lhs rhs []) ts''
          | None => None end
        else Some (lhs, ts)
    | _ => Some (lhs, ts)
    end end.

Definition parse (fuel:nat) (ts:list tok) : option expr :=
  match parse_expr fuel 0 ts with Some (e, []) => Some e | _ => None end.

Definition ex1 := Bin Add (Bin Mul (Int 1 []) (Int 2 []) ["abs"%string]) (Neg (Root ["a"%string]) ["b"%string]) [].
Eval vm_compute in pt true ex1.
Eval vm_compute in parse 50 (pt true ex1).
Definition ex2 := Bin Sub (Int (-3) []) (Bin Sub (Int 1 ["x"%string]) (Neg (Neg (Root []) []) []) []) [].
Eval vm_compute in (pt true ex2, parse 50 (pt true ex2)).

(* ---------- relational (fuel-free) presentation of the same parser ---------- *)
Definition stops (minp:nat) (ts:list tok) : Prop :=
  match ts with TOp o :: _ => (prec o < minp)%nat | _ => True end.
Definition noacc (ts:list tok) : Prop := match ts with TAcc _ :: _ => False | _ => True end.
Definition lowprec (q:nat) (ts:list tok) : Prop := match ts with TOp o :: _ => (prec o <= q)%nat | _ => True end.

Inductive PE : nat -> list tok -> expr -> list tok -> Prop :=
| PE_intro minp ts lhs ts' e ts'' : PU ts lhs ts' -> LP minp lhs ts' e ts'' -> PE minp ts e ts''
with PU : list tok -> expr -> list tok -> Prop :=
| PU_neg ts e ts' : PU ts e ts' -> PU (TOp Sub :: ts) (fold_neg e) ts'
| PU_root ts n r : take_accs ts = (n, r) -> PU (TRoot :: ts) (Root n) r
| PU_int z ts n r : take_accs ts = (n, r) -> PU (TInt z :: ts) (Int z n) r
| PU_par ts e ts' n r : PE 0 ts e (TRP :: ts') -> take_accs ts' = (n, r) -> PU (TLP :: ts) (link e n) r
with LP : nat -> expr -> list tok -> expr -> list tok -> Prop :=
| LP_stop minp lhs ts : stops minp ts -> LP minp lhs ts lhs ts
| LP_step minp lhs o ts rhs ts' e ts'' :
    (minp <= prec o)%nat -> PE (S (prec o)) ts rhs ts' -> LP minp (Bin o lhs rhs []) ts' e ts'' ->
    LP minp lhs (TOp o :: ts) e ts''.

Fixpoint wf (e:expr) : Prop :=
  match e with
  | Root _ | Int _ _ => True
  | Bin _ l r _ => wf l /\ wf r
  | Neg x _ => wf x /\ (forall z, x <> Int z [])
  end.

Definition unary_shape (wp:bool) (e:expr) : Prop :=
  match e with Bin _ _ _ n => wp = true \/ n <> [] | _ => True end.

Lemma take_accs_app n rest : noacc rest -> take_accs (accs n ++ rest) = (n, rest).
Proof.
  intro H. induction n as [|k n IH]; cbn.
  - destruct rest as [|[] ?]; try reflexivity. destruct H.
  - unfold accs in IH. rewrite IH. reflexivity.
Qed.

Lemma noacc_lowprec_stop q rest : lowprec q rest -> stops (S q) rest.
Proof. destruct rest as [|[] ?]; cbn; auto. lia. Qed.

Definition U (e:expr) : Prop := forall wp rest, wf e -> noacc rest -> unary_shape wp e -> PU (pt wp e ++ rest) e rest.
Definition E (e:expr) : Prop := forall wp minp rest final tsf, wf e -> noacc rest ->
  (unary_shape wp e \/ (exists o l r, e = Bin o l r [] /\ wp = false /\ (minp <= prec o)%nat /\ lowprec (prec o) rest)) ->
  LP minp e rest final tsf -> PE minp (pt wp e ++ rest) final tsf.

Lemma E_of_U e : U e -> forall wp minp rest final tsf, wf e -> noacc rest -> unary_shape wp e ->
  LP minp e rest final tsf -> PE minp (pt wp e ++ rest) final tsf.
Proof. intros HU wp minp rest final tsf W N S L. econstructor; [apply HU; assumption|exact L]. Qed.

Lemma shape_child (c:expr) (q:nat) (rest:list tok) (minp:nat) :
  (minp <= S q)%nat -> lowprec q rest ->
  unary_shape (prio c <=? q)%nat c \/
  (exists o l r, c = Bin o l r [] /\ (prio c <=? q)%nat = false /\ (S q <= prec o)%nat /\ lowprec (prec o) rest).
Proof.
  intros Hm Hl. destruct c as [n|z n|o l r n|x n]; try (left; exact I).
  cbn [prio unary_shape]. destruct (prec o <=? q)%nat eqn:C.
  - left. left. reflexivity.
  - apply Nat.leb_gt in C. destruct n as [|k n]; [right|left; right; discriminate].
    exists o, l, r. repeat split; try lia.
    destruct rest as [|[] ?]; cbn in *; auto. lia.
Qed.

Lemma body_bin o l r :
  U l -> E l -> U r -> E r -> wf l -> wf r ->
  forall minp rest final tsf, (minp <= prec o)%nat -> lowprec (prec o) rest -> noacc rest ->
  LP minp (Bin o l r []) rest final tsf ->
  PE minp ((pt (prio l <=? prec o)%nat l ++ TOp o :: pt (prio r <=? prec o)%nat r) ++ rest) final tsf.
Proof.
  intros Ul El Ur Er Wl Wr minp rest final tsf Hm Hl Hn L.
  rewrite <- app_assoc. cbn [app].
  apply El; try assumption; [exact I| |].
  - (* shape of l in context: followed by TOp o *)
    destruct l as [n|z n|o' l' r' n|x n]; try (left; exact I).
    cbn [prio unary_shape]. destruct (prec o' <=? prec o)%nat eqn:C.
    + left. left. reflexivity.
    + apply Nat.leb_gt in C. destruct n as [|k n]; [right|left; right; discriminate].
      exists o', l', r'. repeat split; try lia. cbn. lia.
  - eapply LP_step; [exact Hm| |exact L].
    apply Er; try assumption.
    + destruct (shape_child r (prec o) rest (S (prec o)) ltac:(lia) Hl) as [S1|[o' [l' [r' [A [B [C D]]]]]]]; [left; exact S1|].
      right. exists o', l', r'. repeat split; assumption.
    + apply LP_stop. apply noacc_lowprec_stop. exact Hl.
Qed.

Lemma link_nil e : nx_of e = [] -> forall n, link e n = match e with Root _ => Root n | Int z _ => Int z n | Bin o l r _ => Bin o l r n | Neg x _ => Neg x n end.
Proof. destruct e; cbn; intros H n0; subst; reflexivity. Qed.

Lemma PU_num z rest : noacc rest -> PU (num z ++ rest) (Int z []) rest.
Proof.
  intro N. unfold num. destruct (z <? 0)%Z; cbn [app].
  - replace (Int z []) with (fold_neg (Int (- z) [])) by (cbn; rewrite Z.opp_involutive; reflexivity).
    apply PU_neg. apply PU_int. destruct rest as [|[] ?]; try reflexivity. destruct N.
  - apply PU_int. destruct rest as [|[] ?]; try reflexivity. destruct N.
Qed.

Theorem UE : forall e, U e /\ E e.
Proof.
  induction e as [n|z n|o l [Ul El] r [Ur Er] n|x [Ux Ex] n].
  - (* Root *)
    assert (HU: U (Root n)).
    { intros wp rest _ N _. cbn [pt app]. apply PU_root. apply take_accs_app. exact N. }
    split; [exact HU|]. intros wp minp rest final tsf W N [S|[o [l [r [A _]]]]] L; [|discriminate A].
    eapply E_of_U; eauto.
  - (* Int *)
    assert (HU: U (Int z n)).
    { intros wp rest _ N _. cbn [pt]. destruct n as [|k n]; cbn [isnil].
      - apply PU_num. exact N.
      - cbn [app]. rewrite <- app_assoc. cbn [app].
        replace (Int z (k :: n)) with (link (Int z []) (k :: n)) by reflexivity.
        eapply PU_par; [|apply (take_accs_app (k :: n)); exact N].
        econstructor; [apply PU_num; exact I|apply LP_stop; exact I]. }
    split; [exact HU|]. intros wp minp rest final tsf W N [S|[o [l [r [A _]]]]] L; [|discriminate A].
    eapply E_of_U; eauto.
  - (* Bin *)
    assert (HU: U (Bin o l r n)).
    { intros wp rest [Wl Wr] N S. cbn [pt].
      assert (P: (wp || negb (isnil n))%bool = true).
      { destruct S as [S|S]; [subst; reflexivity|]. destruct n; [congruence|]. destruct wp; reflexivity. }
      rewrite P. cbn [app]. rewrite <- app_assoc. cbn [app].
      replace (Bin o l r n) with (link (Bin o l r []) n) by reflexivity.
      eapply PU_par; [|apply take_accs_app; exact N].
      apply body_bin; try assumption; try exact I; try lia.
      apply LP_stop. exact I. }
    split; [exact HU|]. intros wp minp rest final tsf W N [S|[o' [l' [r' [A [B [C D]]]]]]] L.
    + eapply E_of_U; eauto.
    + inversion A; subst o' l' r' n. subst wp. cbn [pt isnil negb orb]. destruct W as [Wl Wr].
      apply body_bin; assumption.
  - (* Neg *)
    assert (BODY: forall rest, wf (Neg x n) -> noacc rest -> PU (TOp Sub :: pt (prio x <=? 5)%nat x ++ rest) (Neg x []) rest).
    { intros rest [Wx NI] N.
      replace (Neg x []) with (fold_neg x).
      - apply PU_neg. apply Ux; try assumption.
        destruct x as [n'|z' n'|o' l' r' n'|x' n']; try exact I. left. cbn. destruct o'; reflexivity.
      - destruct x as [n'|z' n'|o' l' r' n'|x' n']; try reflexivity. destruct n'; [exfalso; eapply NI; reflexivity|reflexivity]. }
    assert (HU: U (Neg x n)).
    { intros wp rest W N _. cbn [pt]. destruct (wp || negb (isnil n))%bool eqn:P.
      - cbn [app]. rewrite <- app_assoc. cbn [app].
        replace (Neg x n) with (link (Neg x []) n) by reflexivity.
        eapply PU_par; [|apply take_accs_app; exact N].
        econstructor; [apply (BODY (TRP :: accs n ++ rest)); [exact W|exact I]|apply LP_stop; exact I].
      - assert (n = []) by (destruct n; [reflexivity|destruct wp; discriminate]). subst n.
        cbn [app]. apply BODY; assumption. }
    split; [exact HU|]. intros wp minp rest final tsf W N [S|[o [l [r [A _]]]]] L; [|discriminate A].
    eapply E_of_U; eauto.
Qed.

Theorem roundtrip_rel e : wf e -> PE 0 (pt true e) e [].
Proof.
  intro W. destruct (UE e) as [_ HE].
  rewrite <- (app_nil_r (pt true e)).
  apply HE; try assumption; try exact I.
  - left. destruct e; cbn; auto.
  - apply LP_stop. exact I.
Qed.
Print Assumptions roundtrip_rel.

(* ---------- adequacy: the relation is realised by the fuelled functions ---------- *)
Scheme PE_ind' := Induction for PE Sort Prop
  with PU_ind' := Induction for PU Sort Prop
  with LP_ind' := Induction for LP Sort Prop.
Combined Scheme P_mut from PE_ind', PU_ind', LP_ind'.

Lemma adequacy :
  (forall minp ts e ts', PE minp ts e ts' -> exists n, forall fuel, (n <= fuel)%nat -> parse_expr fuel minp ts = Some (e, ts')) /\
  (forall ts e ts', PU ts e ts' -> exists n, forall fuel, (n <= fuel)%nat -> parse_unary fuel ts = Some (e, ts')) /\
  (forall minp lhs ts e ts', LP minp lhs ts e ts' -> exists n, forall fuel, (n <= fuel)%nat -> loop fuel minp lhs ts = Some (e, ts')).
Proof.
  apply P_mut.
  - intros minp ts lhs ts' e ts'' _ [n1 H1] _ [n2 H2]. exists (S (Nat.max n1 n2)). intros fuel Hf.
    destruct fuel as [|f]; [lia|]. cbn [parse_expr]. rewrite H1 by lia. apply H2. lia.
  - intros ts e ts' _ [n H]. exists (S n). intros fuel Hf. destruct fuel as [|f]; [lia|]. cbn [parse_unary].
    rewrite H by lia. reflexivity.
  - intros ts n r T. exists 1%nat. intros fuel Hf. destruct fuel as [|f]; [lia|]. cbn [parse_unary]. rewrite T. reflexivity.
  - intros z ts n r T. exists 1%nat. intros fuel Hf. destruct fuel as [|f]; [lia|]. cbn [parse_unary]. rewrite T. reflexivity.
  - intros ts e ts' n r _ [m H] T. exists (S m). intros fuel Hf. destruct fuel as [|f]; [lia|]. cbn [parse_unary].
    rewrite H by lia. rewrite T. reflexivity.
  - intros minp lhs ts S. exists 1%nat. intros fuel Hf. destruct fuel as [|f]; [lia|]. cbn [loop].
    destruct ts as [|[| |o| | |] ts]; try reflexivity. cbn in S.
    assert ((minp <=? prec o)%nat = false) by (apply Nat.leb_gt; lia). rewrite H. reflexivity.
  - intros minp lhs o ts rhs ts' e ts'' Hm _ [n1 H1] _ [n2 H2]. exists (S (Nat.max n1 n2)). intros fuel Hf.
    destruct fuel as [|f]; [lia|]. cbn [loop].
    assert ((minp <=? prec o)%nat = true) by (apply Nat.leb_le; lia). rewrite H.
    rewrite H1 by lia. apply H2. lia.
Qed.

Theorem roundtrip e : wf e -> exists n, forall fuel, (n <= fuel)%nat -> parse fuel (pt true e) = Some e.
Proof.
  intro W. destruct adequacy as [A _]. destruct (A _ _ _ _ (roundtrip_rel e W)) as [n H].
  exists n. intros fuel Hf. unfold parse. rewrite H by exact Hf. reflexivity.
Qed.
Print Assumptions roundtrip.
