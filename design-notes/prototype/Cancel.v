From Coq Require Import List ZArith String Bool Lia Arith.
Import ListNotations.
Require Import Mini.

Definition hit (s:st) : Prop := match cancel_at s with Some k => (k < polls s)%nat | None => False end.
Lemma hit_dec s : {hit s} + {~ hit s}.
Proof. unfold hit. destruct (cancel_at s); [apply lt_dec|right; tauto]. Qed.

Definition canc_i (r:resp) : Prop := rerr r = Some ECancel /\ rstat r = Failed.
Definition canc_b (r:resp) : Prop := rerr r = Some ECancel /\ rpred r = PU.
Definition canc (q:req) (r:resp) : Prop := match q with RBool _ _ => canc_b r | _ => canc_i r end.

(* [post C s r s']: polls only grow, the cancel point is constant, and a call that polled and
   ends after the context was seen done returns the cancellation (in the shape C) *)
Definition post (C:resp -> Prop) (s:st) (r:resp) (s':st) : Prop :=
  (polls s <= polls s')%nat /\ cancel_at s' = cancel_at s /\ (hit s' -> polls s' = polls s \/ C r).

Definition cancels (f:req -> st -> outcome (resp*st)) : Prop :=
  forall q s r s', f q s = Ret (r, s') -> post (canc q) s r s'.

Ltac ret := match goal with H : Ret (_, _) = Ret (?r, ?s) |- _ => let Hr := fresh "Hr" in let Hs := fresh "Hs" in injection H as Hr Hs; subst r; try subst s; clear H end.

Lemma post_ret C s r : post C s r s.
Proof. repeat split; [lia|intro; left; reflexivity]. Qed.

Lemma post_weaken (C C':resp -> Prop) s r s' : (C r -> C' r) -> post C s r s' -> post C' s r s'.
Proof. intros W [A [B D]]. repeat split; auto. intro H. destruct (D H); auto. Qed.

(* the state setters do not touch polls / cancel_at *)
Definition neutral (g:st -> st) := (forall x, polls (g x) = polls x) /\ (forall x, cancel_at (g x) = cancel_at x).
Lemma neutral_ign b : neutral (fun s => set_ign s b). Proof. split; reflexivity. Qed.
Lemma neutral_cur c : neutral (fun s => set_cur s c). Proof. split; reflexivity. Qed.
Lemma neutral_vb b : neutral (fun s => set_verbose s b). Proof. split; reflexivity. Qed.

Lemma post_out C s r s' g : neutral g -> post C s r s' -> post C s r (g s').
Proof.
  intros [P Q] [A [B D]]. repeat split; rewrite ?P, ?Q; auto.
  intro H. apply D. unfold hit in *. rewrite Q, P in H. exact H.
Qed.
Lemma post_in C s r s' g : neutral g -> post C (g s) r s' -> post C s r s'.
Proof. intros [P Q] [A [B D]]. rewrite P, Q in *. repeat split; auto. Qed.

(* continue after a first call whose result was not a cancellation *)
Lemma post_seq C1 C s r1 s1 r s' :
  post C1 s r1 s1 -> (hit s1 -> ~ C1 r1 \/ False -> polls s1 = polls s) ->
  (hit s1 -> C1 r1 -> False) \/ True ->
  post C s1 r s' -> (hit s1 -> polls s1 = polls s) -> post C s r s'.
Proof.
  intros [A1 [B1 _]] _ _ [A [B D]] NP. repeat split; [lia|congruence|].
  intro H. destruct (D H) as [E|E]; [|right; exact E]. left.
  assert (H1: hit s1) by (unfold hit in *; rewrite B, E in H; exact H).
  rewrite E. apply NP. exact H1.
Qed.

(* the two ways a first call can end *)
Lemma post_split C1 s r1 s1 : post C1 s r1 s1 -> (hit s1 /\ C1 r1) \/ (hit s1 -> polls s1 = polls s).
Proof.
  intros [A [B D]]. destruct (hit_dec s1) as [H|H]; [|right; tauto].
  destruct (D H) as [E|E]; [right; auto|left; auto].
Qed.

(* a cancellation result returned as is *)
Lemma post_prop (C1 C:resp -> Prop) s r1 s1 : post C1 s r1 s1 -> (C1 r1 -> C r1) -> post C s r1 s1.
Proof. intros P W. eapply post_weaken; eauto. Qed.

Lemma post_canc (C1 C:resp -> Prop) s r1 s1 r : post C1 s r1 s1 -> C r -> post C s r s1.
Proof. intros [A [B D]] Cr. repeat split; auto. Qed.
Lemma post_np (C1 C:resp -> Prop) s r1 s1 r : post C1 s r1 s1 -> (hit s1 -> polls s1 = polls s) -> post C s r s1.
Proof. intros [A [B D]] NP. repeat split; auto. Qed.

Section Body.
Variable self : req -> st -> outcome (resp*st).
Hypothesis Hc : cancels self.

Lemma next_c next v found s r s' : executeNextItem self next v found s = Ret (r, s') -> post canc_i s r s'.
Proof.
  unfold executeNextItem; intro H. destruct next; [ret; apply post_ret|apply (Hc _ _ _ _ H)].
Qed.

Lemma key_c k next v found u s r s' : execKey self k next v found u s = Ret (r, s') -> post canc_i s r s'.
Proof.
  unfold execKey; intro H.
  destruct v; try (destruct (ign s); ret; apply post_ret).
  - destruct u; [apply (Hc _ _ _ _ H)|destruct (ign s); ret; apply post_ret].
  - destruct (lookup k l); [eapply next_c; eauto|destruct (ign s); ret; apply post_ret].
Qed.

Lemma anyarr_c next v found s r s' : execAnyArr self next v found s = Ret (r, s') -> post canc_i s r s'.
Proof.
  unfold execAnyArr; intro H.
  destruct v; try (destruct (lax s); [eapply next_c; eauto|destruct (ign s); ret; apply post_ret]).
  apply (Hc _ _ _ _ H).
Qed.

Lemma any_c f l next v found s r s' : execAny self f l next v found s = Ret (r, s') -> post canc_i s r s'.
Proof.
  unfold execAny; intro H.
  assert (K: forall s0 fnd r s', 
     (do (r2, s2) <- match children v with
        | Some vs => do (r, s2) <- self (RAny next vs fnd one f l true (lax s0)) s0; Ret (r, s2)
        | None => Ret (mk NotFound None fnd, s0) end; Ret (r2, set_ign s2 (ign s))) = Ret (r, s') -> post canc_i s0 r s').
  { clear H. intros s0 fnd r1 s1 H.
    destruct (children v) as [vs|]; cbn [bindo] in H.
    - destruct (self (RAny next vs fnd one f l true (lax s0)) s0) as [[ra sa]|] eqn:EA; cbn [bindo] in H; [|discriminate H].
      ret. apply (post_out _ _ _ _ (fun x => set_ign x (ign s))); [apply neutral_ign|]. apply (Hc _ _ _ _ EA).
    - ret. apply (post_out _ _ _ _ (fun x => set_ign x (ign s))); [apply neutral_ign|]. apply post_ret. }
  destruct f as [|f'].
  - destruct (executeNextItem self next v found (set_ign s true)) as [[r0 s0]|] eqn:E0; cbn [bindo] in H; [|discriminate H].
    pose proof (next_c _ _ _ _ _ _ E0) as P0. apply (post_in _ _ _ _ (fun x => set_ign x true)) in P0; [|apply neutral_ign].
    assert (RET: post canc_i s r0 (set_ign s0 (ign s))).
    { apply (post_out _ _ _ _ (fun x => set_ign x (ign s))); [apply neutral_ign|exact P0]. }
    destruct (rstat r0) eqn:ST.
    + destruct found; [|ret; exact RET].
      destruct (post_split _ _ _ _ P0) as [[Hh [_ Cf]]|NP]; [congruence|].
      specialize (K _ _ _ _ H). apply (post_in _ _ _ _ (fun x => set_ign x true)) in K; [|apply neutral_ign].
      eapply post_seq; eauto.
    + destruct (post_split _ _ _ _ P0) as [[Hh [_ Cf]]|NP]; [congruence|].
      specialize (K _ _ _ _ H). apply (post_in _ _ _ _ (fun x => set_ign x true)) in K; [|apply neutral_ign].
      eapply post_seq; eauto.
    + ret. exact RET.
  - destruct (children v) as [vs|].
    + destruct (self (RAny next vs found one (S f') l true (lax s)) s) as [[ra sa]|] eqn:EA; cbn [bindo] in H; [|discriminate H].
      ret. apply (Hc _ _ _ _ EA).
    + ret. apply post_ret.
Qed.

Lemma filter_c p next v found u s r s' : execFilter self p next v found u s = Ret (r, s') -> post canc_i s r s'.
Proof.
  unfold execFilter; intro H.
  assert (G: forall r s', (do (r0, s1) <- self (RBool p v) (set_cur s v);
        match rpred r0 with PT => executeNextItem self next v found (set_cur s1 (cur s))
        | _ => match rerr r0 with Some e => Ret (mk Failed (Some e) found, set_cur s1 (cur s)) | None => Ret (mk NotFound None found, set_cur s1 (cur s)) end end) = Ret (r, s') -> post canc_i s r s').
  { clear H. intros r1 s1' H.
    destruct (self (RBool p v) (set_cur s v)) as [[rb sb]|] eqn:EB; cbn [bindo] in H; [|discriminate H].
    pose proof (Hc _ _ _ _ EB) as PB. cbn [canc] in PB.
    apply (post_in _ _ _ _ (fun x => set_cur x v)) in PB; [|apply neutral_cur].
    destruct (post_split _ _ _ _ PB) as [[Hh [Ce Cp]]|NP].
    - (* the condition was cancelled: rpred = PU, rerr = ECancel *)
      rewrite Cp, Ce in H. ret.
      apply (post_out _ _ _ _ (fun x => set_cur x (cur s))); [apply neutral_cur|].
      eapply post_canc; [exact PB|]. split; reflexivity.
    - destruct (rpred rb); cbv iota beta in H.
      + pose proof (next_c _ _ _ _ _ _ H) as PN.
        apply (post_in _ _ _ _ (fun x => set_cur x (cur s))) in PN; [|apply neutral_cur].
        eapply post_seq; eauto.
      + destruct (rerr rb); ret; (apply (post_out _ _ _ _ (fun x => set_cur x (cur s))); [apply neutral_cur|]);
          eapply post_np; eauto.
      + destruct (rerr rb); ret; (apply (post_out _ _ _ _ (fun x => set_cur x (cur s))); [apply neutral_cur|]);
          eapply post_np; eauto. }
  destruct v; try (eapply G; eauto; fail).
  destruct u; [apply (Hc _ _ _ _ H)|eapply G; eauto].
Qed.

Lemma item_c n v found u s r s' : execItem self n v found u s = Ret (r, s') -> post canc_i s r s'.
Proof.
  unfold execItem; intro H.
  destruct (done_now s) eqn:DN.
  - ret. repeat split; cbn; [lia|]. intro. right. split; reflexivity.
  - assert (P: post canc_i (tick s) r s').
    { destruct n as [|[]]; try (eapply next_c; eauto; fail).
      - ret. apply post_ret.
      - eapply key_c; eauto.
      - eapply anyarr_c; eauto.
      - eapply any_c; eauto.
      - eapply filter_c; eauto.
      - destruct n; [destruct found; [eapply next_c; eauto|ret; apply post_ret]|eapply next_c; eauto]. }
    destruct P as [A [B D]]. cbn [polls cancel_at tick] in A, B, D. repeat split; [lia|exact B|].
    intro Hh. destruct (D Hh) as [E|E]; [|right; exact E].
    exfalso. unfold hit in Hh. unfold done_now in DN. rewrite B in Hh. destruct (cancel_at s) as [k|]; [|exact Hh].
    apply Nat.leb_gt in DN. lia.
Qed.

Definition exitb (found:option (list json)) (r:resp) : bool :=
  match rstat r, found with Failed, _ => true | OK, None => true | _, _ => false end.

Lemma anyloop_c n found level first last ignp un saved : forall vs res s r s',
  anyLoop self n vs found level first last ignp un res s saved = Ret (r, s') ->
  post (fun x => canc_i x) s r s' \/ (r = res /\ s' = s).
Proof.
  induction vs as [|v rest IH]; intros res s r s' H; cbn [anyLoop] in H.
  - ret. right. auto.
  - left.
    destruct ((if (first <=? level)%nat then
         match n, found with
         | _ :: _, _ => let s' := if ignp then set_ign s true else s in self (RItem n v (rfound res) un) s'
         | [], Some _ => Ret (mk OK None (option_map (fun l => l ++ [v]) (rfound res)), s)
         | [], None => Ret (mk OK None None, s)
         end
       else Ret (res, s))) as [[r1 s1]|] eqn:EA; cbn [bindo] in H; [|discriminate H].
    assert (PA: post canc_i s r1 s1).
    { destruct (first <=? level)%nat; [|ret; apply post_ret].
      destruct n as [|x n']; [destruct found; ret; apply post_ret|].
      pose proof (Hc _ _ _ _ EA) as P. cbn [canc] in P. destruct ignp; [|exact P].
      apply (post_in _ _ _ _ (fun x => set_ign x true)) in P; [exact P|apply neutral_ign]. }
    change (match rstat r1 with Failed => true | OK => match found with None => true | Some _ => false end | NotFound => false end) with (exitb found r1) in H.
    destruct (exitb found r1) eqn:X1; [ret; exact PA|].
    destruct (post_split _ _ _ _ PA) as [[Hh [_ Cf]]|NP1].
    { unfold exitb in X1. rewrite Cf in X1. discriminate. }
    destruct ((if (level <? last)%nat then
         match children v with
         | Some cs => self (RAny n cs (rfound r1) (S level) first last ignp un) s1
         | None => Ret (mk NotFound None (rfound r1), s1)
         end
       else Ret (r1, s1))) as [[r2 s2]|] eqn:EB; cbn [bindo] in H; [|discriminate H].
    assert (PB: post canc_i s1 r2 s2).
    { destruct (level <? last)%nat; [|ret; apply post_ret].
      destruct (children v); [apply (Hc _ _ _ _ EB)|ret; apply post_ret]. }
    assert (PAB: post canc_i s r2 s2) by (eapply post_seq; eauto).
    change (match rstat r2 with Failed => true | OK => match found with None => true | Some _ => false end | NotFound => false end) with (exitb found r2) in H.
    destruct (exitb found r2) eqn:X2; [ret; exact PAB|].
    destruct (post_split _ _ _ _ PAB) as [[Hh [_ Cf]]|NP2].
    { unfold exitb in X2. rewrite Cf in X2. discriminate. }
    destruct (IH _ _ _ _ H) as [PR|[Er Es]].
    + eapply post_seq; eauto.
    + subst r s'. eapply post_np; eauto.
Qed.

Lemma anyitem_c n vs found level first last ignp un s r s' :
  execAnyItem self n vs found level first last ignp un s = Ret (r, s') -> post canc_i s r s'.
Proof.
  unfold execAnyItem; intro H.
  destruct (last <? level)%nat; [ret; apply post_ret|].
  destruct (anyLoop self n vs found level first last ignp un (mk NotFound None found) s (ign s)) as [[r0 s0]|] eqn:EL; cbn [bindo] in H; [|discriminate H].
  assert (P0: post canc_i s r0 s0).
  { destruct (anyloop_c _ _ _ _ _ _ _ _ _ _ _ _ _ EL) as [P|[Er Es]]; [exact P|subst; apply post_ret]. }
  assert (P1: post canc_i s r0 (set_ign s0 (ign s))) by (apply (post_out _ _ _ _ (fun x => set_ign x (ign s))); [apply neutral_ign|exact P0]).
  destruct (rstat r0) eqn:ST; destruct (rerr r0) eqn:ER; try (ret; exact P1);
    match goal with H0 : context[if ?c then _ else _] |- _ => destruct c end; ret; try exact P1;
    (destruct (post_split _ _ _ _ P1) as [[Hh [Ce Cf]]|NP]; [congruence|eapply post_np; eauto]).
Qed.

Lemma operand_c e v u found s r s' : operand self e v u found s = Ret (r, s') -> post canc_i s r s'.
Proof.
  unfold operand; intro H.
  match goal with H0 : bindo ?x _ = _ |- _ => destruct x as [[r1 s1]|] eqn:E1; cbn [bindo] in H0; [|discriminate H0] end.
  ret. apply (post_out _ _ _ _ (fun x => set_verbose x (verbose s))); [apply neutral_vb|].
  apply (post_in _ _ _ _ (fun x => set_verbose x false)); [apply neutral_vb|].
  destruct (u && lax s)%bool.
  - destruct (self (RItem e v (Some []) (lax (set_verbose s false))) (set_verbose s false)) as [[r0 s0]|] eqn:E0; cbn [bindo] in E1; [|discriminate E1].
    pose proof (Hc _ _ _ _ E0) as P. cbn [canc] in P.
    destruct (rstat r0) eqn:ST; ret; try exact P;
      (destruct (post_split _ _ _ _ P) as [[Hh [Ce Cf]]|NP]; [congruence|eapply post_np; eauto]).
  - apply (Hc _ _ _ _ E1).
Qed.

Lemma bool_c p v s r s' : execBool self p v s = Ret (r, s') -> post canc_b s r s'.
Proof.
  unfold execBool; intro H. destruct p as [e|el er|a b|a|a].
  - (* exists *)
    destruct (lax s).
    + destruct (operand self e v false None s) as [[ro so]|] eqn:EO; cbn [bindo] in H; [|discriminate H].
      pose proof (operand_c _ _ _ _ _ _ _ EO) as P.
      destruct (post_split _ _ _ _ P) as [[Hh [Ce Cf]]|NP].
      * rewrite Cf in H. ret. eapply post_canc; [exact P|]. split; [exact Ce|reflexivity].
      * destruct (rstat ro); ret; eapply post_np; eauto.
    + destruct (operand self e v false (Some []) s) as [[ro so]|] eqn:EO; cbn [bindo] in H; [|discriminate H].
      pose proof (operand_c _ _ _ _ _ _ _ EO) as P.
      destruct (post_split _ _ _ _ P) as [[Hh [Ce Cf]]|NP].
      * rewrite Cf in H. ret. eapply post_canc; [exact P|]. split; [exact Ce|reflexivity].
      * destruct (rstat ro); try (destruct (rfound ro) as [[|]|]); ret; eapply post_np; eauto.
  - (* == *)
    destruct (operand self el v true (Some []) s) as [[rl sl]|] eqn:EL; cbn [bindo] in H; [|discriminate H].
    pose proof (operand_c _ _ _ _ _ _ _ EL) as PL.
    destruct (post_split _ _ _ _ PL) as [[Hh [Ce Cf]]|NPL].
    + rewrite Cf in H. ret. eapply post_canc; [exact PL|]. split; [exact Ce|reflexivity].
    + assert (CONT: forall r s', (do (rr, s2) <- operand self er v true (Some []) sl;
                   match rstat rr with
                   | Failed => Ret (mkp PU (rerr rr), s2)
                   | _ => Ret (mkp (pairs (negb (lax s2)) (match rfound rl with Some x => x | None => [] end)
                                      (match rfound rr with Some x => x | None => [] end) false false) None, s2) end) = Ret (r, s') ->
                 post canc_b sl r s').
      { clear H. intros r1 s1 H.
        destruct (operand self er v true (Some []) sl) as [[rr sr]|] eqn:ER; cbn [bindo] in H; [|discriminate H].
        pose proof (operand_c _ _ _ _ _ _ _ ER) as PR.
        destruct (post_split _ _ _ _ PR) as [[Hh [Ce Cf]]|NPR].
        - rewrite Cf in H. ret. eapply post_canc; [exact PR|]. split; [exact Ce|reflexivity].
        - destruct (rstat rr); ret; eapply post_np; eauto. }
      destruct (rstat rl); try (ret; eapply post_np; eauto; fail); specialize (CONT _ _ H); eapply post_seq; eauto.
  - (* && *)
    destruct (self (RBool a v) s) as [[ra sa]|] eqn:EA; cbn [bindo] in H; [|discriminate H].
    pose proof (Hc _ _ _ _ EA) as PA. cbn [canc] in PA.
    assert (CONT: forall r s', (do (r2, s2) <- self (RBool b v) sa;
                 match rpred r2 with PT => Ret (mkp (rpred ra) (rerr r2), s2) | _ => Ret (r2, s2) end) = Ret (r, s') ->
              post canc_b sa r s' \/ False).
    { clear H. intros r1 s1 H. left.
      destruct (self (RBool b v) sa) as [[rb sb]|] eqn:EB; cbn [bindo] in H; [|discriminate H].
      pose proof (Hc _ _ _ _ EB) as PB. cbn [canc] in PB.
      destruct (post_split _ _ _ _ PB) as [[Hh [Ce Cp]]|NPB].
      - rewrite Cp in H. ret. exact PB.
      - destruct (rpred rb); ret; eapply post_np; eauto. }
    destruct (post_split _ _ _ _ PA) as [[Hh [Ce Cp]]|NPA].
    + rewrite Cp, Ce in H. ret. exact PA.
    + destruct (rpred ra); destruct (rerr ra); try (ret; exact PA);
        (destruct (CONT _ _ H) as [PC|[]]; eapply post_seq; eauto).
  - (* ! *)
    destruct (self (RBool a v) s) as [[ra sa]|] eqn:EA; cbn [bindo] in H; [|discriminate H].
    pose proof (Hc _ _ _ _ EA) as PA. cbn [canc] in PA.
    destruct (post_split _ _ _ _ PA) as [[Hh [Ce Cp]]|NPA].
    + rewrite Cp in H. ret. exact PA.
    + destruct (rpred ra); ret; try exact PA; eapply post_np; eauto.
  - (* is unknown (repaired: propagates a non-suppressible error) *)
    destruct (self (RBool a v) s) as [[ra sa]|] eqn:EA; cbn [bindo] in H; [|discriminate H].
    pose proof (Hc _ _ _ _ EA) as PA. cbn [canc] in PA.
    destruct (post_split _ _ _ _ PA) as [[Hh [Ce Cp]]|NPA].
    + rewrite Ce in H. ret. eapply post_canc; [exact PA|]. split; reflexivity.
    + destruct (rerr ra); ret; eapply post_np; eauto.
Qed.

Theorem cancel_body : cancels (body self).
Proof.
  intros q s r s' H. destruct q; cbn [body canc] in *.
  - eapply item_c; eauto.
  - eapply anyitem_c; eauto.
  - eapply bool_c; eauto.
Qed.
End Body.

Theorem cancel_run : forall fuel, cancels (run fuel).
Proof.
  induction fuel as [|n IH]; [intros q s r s' H; discriminate H|].
  cbn [run]. apply cancel_body. exact IH.
Qed.

(* The public statement: a query whose context is seen done at some poll never returns a normal outcome *)
Corollary cancellation_is_never_a_result fuel n rt found laxm vb k r s' :
  run fuel (RItem n rt found laxm)
      {| root:=rt; cur:=rt; ign:=laxm; verbose:=vb; lax:=laxm; polls:=0; cancel_at:=Some k |} = Ret (r, s') ->
  (k < polls s')%nat ->                      (* some poll happened at or after the k-th *)
  rstat r = Failed /\ rerr r = Some ECancel. (* regardless of [vb]: silent does not suppress it *)
Proof.
  intros H Hk. destruct (cancel_run fuel _ _ _ _ H) as [A [B D]]. cbn in A, B, D.
  assert (Hh: hit s') by (unfold hit; rewrite B; exact Hk).
  destruct (D Hh) as [E|[Ce Cf]]; [lia|auto].
Qed.
Print Assumptions cancellation_is_never_a_result.
