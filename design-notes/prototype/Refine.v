From Coq Require Import List ZArith String Bool Lia.
Import ListNotations.
Require Import Mini Spec.

Definition vis (vb:bool) (e:err) : option err :=
  match e with EVerbose _ => if vb then Some e else None | _ => Some e end.

Definition R (found:option (list json)) (t:trace) (vb:bool) (r:resp) : Prop :=
  match found with
  | Some acc => rfound r = Some (acc ++ fst t) /\
      match snd t with
      | Some e => rstat r = Failed /\ rerr r = vis vb e
      | None => rstat r <> Failed /\ rerr r = None end
  | None => rfound r = None /\
      match fst t, snd t with
      | _ :: _, _ => rstat r = OK /\ rerr r = None
      | [], Some e => rstat r = Failed /\ rerr r = vis vb e
      | [], None => rstat r = NotFound /\ rerr r = None
      end
  end.

(* ---- trace algebra ---- *)
Lemma tapp_nil_r t : tapp t tnil = t.
Proof. destruct t as [a [e|]]; unfold tapp; cbn; [reflexivity|rewrite app_nil_r; reflexivity]. Qed.
Lemma tapp_nil_l t : tapp tnil t = t.
Proof. unfold tapp; cbn. destruct t; reflexivity. Qed.
Lemma tapp_assoc a b c : tapp (tapp a b) c = tapp a (tapp b c).
Proof.
  destruct a as [xa [ea|]], b as [xb [eb|]], c as [xc ec]; unfold tapp; cbn; try reflexivity.
  rewrite app_assoc; reflexivity.
Qed.

Lemma desc_v_unfold k first last level v :
  desc_v k first last level v =
  tapp (if (first <=? level)%nat then k v else tnil)
       (if (level <? last)%nat then
          match children v with Some cs => tbind_list cs (desc_v k first last (S level)) | None => tnil end
        else tnil).
Proof.
  destruct v; cbn [desc_v children]; try reflexivity.
  - f_equal. destruct (level <? last)%nat; [|reflexivity].
    induction l as [|x r IH]; cbn [tbind_list]; [reflexivity|]. rewrite IH; reflexivity.
  - f_equal. destruct (level <? last)%nat; [|reflexivity].
    induction l as [|x r IH]; cbn [tbind_list map]; [reflexivity|]. rewrite IH; reflexivity.
Qed.

Lemma descend_flat k vs : descend k vs 1 1 1 = tbind_list vs k.
Proof.
  unfold descend. cbn. induction vs as [|v r IH]; cbn [tbind_list]; [reflexivity|].
  rewrite IH, desc_v_unfold. cbn. rewrite tapp_nil_r. reflexivity.
Qed.

Lemma tbind_ext l k k' : (forall x, k x = k' x) -> tbind_list l k = tbind_list l k'.
Proof. intro H; induction l as [|x r IH]; cbn [tbind_list]; [reflexivity|rewrite H, IH; reflexivity]. Qed.

(* sem_pred's local chain is sem_chain *)
Lemma sem_pred_exists rt laxm e c ig v :
  sem_pred rt laxm (PExists e) c ig v =
  let t := sem_chain rt laxm e c ig laxm v in
  if laxm then match fst t, snd t with _ :: _, _ => (PT, None) | [], Some er => (PU, hard (Some er)) | [], None => (PF, None) end
  else match snd t, fst t with Some er, _ => (PU, hard (Some er)) | None, [] => (PF, None) | None, _ => (PT, None) end.
Proof. reflexivity. Qed.
Lemma sem_pred_eq rt laxm l r c ig v :
  sem_pred rt laxm (PEq l r) c ig v =
  let tl := sem_chain rt laxm l c ig laxm v in
  match snd tl with Some er => (PU, hard (Some er)) | None =>
    let tr := sem_chain rt laxm r c ig laxm v in
    match snd tr with Some er => (PU, hard (Some er)) | None =>
      let unw x := if laxm then unwrapSeq x else x in
      (pairs (negb laxm) (unw (fst tl)) (unw (fst tr)) false false, None) end end.
Proof. reflexivity. Qed.

Ltac ret := match goal with H : Ret (_, _) = Ret (?r, ?s) |- _ => let Hr := fresh "Hr" in let Hs := fresh "Hs" in injection H as Hr Hs; subst r; try subst s; clear H end.

Definition good (rt:json) (laxm:bool) (s:st) := lax s = laxm /\ root s = rt /\ cancel_at s = None.

Definition refines (rt:json) (laxm:bool) (f : req -> st -> outcome (resp*st)) : Prop :=
  (forall n v found u s r s', f (RItem n v found u) s = Ret (r, s') -> good rt laxm s ->
      R found (sem_chain rt laxm n (cur s) (ign s) u v) (verbose s) r) /\
  (forall n vs found level first last ignp un s r s',
      f (RAny n vs found level first last ignp un) s = Ret (r, s') -> good rt laxm s ->
      R found (descend (fun v => sem_chain rt laxm n (cur s) (ignp || ign s) un v) vs level first last) (verbose s) r) /\
  (forall p v s r s', f (RBool p v) s = Ret (r, s') -> good rt laxm s ->
      (rpred r, rerr r) = sem_pred rt laxm p (cur s) (ign s) v).



Lemma R_nil found vb : forall s, R found tnil vb (mk s None found) -> True. Proof. trivial. Qed.

Lemma R_notfound found vb : R found tnil vb (mk NotFound None found).
Proof. destruct found; cbn; [rewrite app_nil_r|]; repeat split; congruence. Qed.


Lemma R_vfail found s n : R found (tfail (EVerbose n)) (verbose s) (returnVerboseError s (EVerbose n) found).
Proof.
  unfold returnVerboseError; cbn.
  destruct (verbose s); destruct found; cbn; rewrite ?app_nil_r; repeat split.
Qed.

Lemma R_ret found vb v : R found ([v], None) vb (mk OK None (option_map (fun l => l ++ [v]) found)).
Proof. destruct found; cbn; repeat split; congruence. Qed.

Lemma next_ok (rt:json) (laxm:bool) (self:req -> st -> outcome (resp*st)) (Hfr:frames self) (Hrf:refines rt laxm self) next v found s r s' :
  executeNextItem self next v found s = Ret (r, s') -> good rt laxm s ->
  R found (sem_chain rt laxm next (cur s) (ign s) laxm v) (verbose s) r.
Proof.
  unfold executeNextItem; intros H G. destruct next as [|x next'].
  - ret. apply R_ret.
  - pose proof Hrf as [H1 _]. specialize (H1 _ _ _ _ _ _ _ H G). destruct G as [G1 G2]. rewrite G1 in H1. exact H1.
Qed.

Lemma good_ctx rt laxm s s' : ctx_eq s s' -> good rt laxm s -> good rt laxm s'.
Proof. unfold ctx_eq, good; intuition congruence. Qed.

(* sequential composition of two refinement steps *)
Lemma R_seq found t1 t2 vb r1 r2 :
  R found t1 vb r1 ->
  (snd t1 = None -> (found = None -> fst t1 = []) -> R (rfound r1) t2 vb r2) ->
  (* early exits: r2 = r1 when r1 failed, or found=None and r1 OK *)
  (rstat r1 = Failed -> r2 = r1) ->
  (found = None -> rstat r1 = OK -> r2 = r1) ->
  R found (tapp t1 t2) vb r2.
Proof.
  intros H1 H2 E1 E2. destruct t1 as [a1 f1], t2 as [a2 f2]. unfold tapp; cbn [fst snd] in *.
  destruct found as [acc|].
  - cbn in H1. destruct H1 as [F1 S1]. destruct f1 as [e|].
    + destruct S1 as [S1 S1']. rewrite (E1 S1). cbn. auto.
    + destruct S1 as [S1 S1']. specialize (H2 eq_refl). rewrite F1 in H2. cbn in H2.
      assert (H2' := H2 ltac:(discriminate)). destruct H2' as [F2 S2]. cbn. rewrite app_assoc. split; assumption.
  - cbn in H1. destruct H1 as [F1 S1]. destruct a1 as [|x a1].
    + destruct f1 as [e|].
      * destruct S1 as [S1 S1']. rewrite (E1 S1). cbn. auto.
      * destruct S1 as [S1 S1']. specialize (H2 eq_refl ltac:(reflexivity)). rewrite F1 in H2. exact H2.
    + destruct S1 as [S1 S1']. rewrite (E2 eq_refl S1). cbn. destruct f1; cbn; auto.
Qed.

Lemma ctx_cur s s' : ctx_eq s s' -> cur s' = cur s. Proof. unfold ctx_eq; intuition. Qed.
Lemma ctx_ign s s' : ctx_eq s s' -> ign s' = ign s. Proof. unfold ctx_eq; intuition. Qed.
Lemma ctx_vb s s' : ctx_eq s s' -> verbose s' = verbose s. Proof. unfold ctx_eq; intuition. Qed.

Lemma chain_key rt laxm k next c ig x :
  sem_chain rt laxm (SKey k :: next) c ig false x =
  match x with
  | JObj l => match lookup k l with Some y => sem_chain rt laxm next c ig laxm y | None => if ig then tnil else tfail (EVerbose 1) end
  | _ => if ig then tnil else tfail (EVerbose 2) end.
Proof. destruct x; reflexivity. Qed.

Lemma key_ok (rt:json) (laxm:bool) (self:req -> st -> outcome (resp*st)) (Hfr:frames self) (Hrf:refines rt laxm self) k next v found u s r s' :
  execKey self k next v found u s = Ret (r, s') -> good rt laxm s ->
  R found (sem_chain rt laxm (SKey k :: next) (cur s) (ign s) u v) (verbose s) r.
Proof.
  unfold execKey; intros H G.
  assert (NF: forall n, (if ign s then Ret (mk NotFound None found, s) else Ret (returnVerboseError s (EVerbose n) found, s)) = Ret (r, s') ->
            R found (if ign s then tnil else tfail (EVerbose n)) (verbose s) r).
  { intros n H0. destruct (ign s); ret; [apply R_notfound|apply R_vfail]. }
  destruct v as [|z|l|l].
  - apply NF in H. exact H.
  - apply NF in H. exact H.
  - destruct u.
    + pose proof Hrf as [_ [H2 _]]. specialize (H2 _ _ _ _ _ _ _ _ _ _ _ H G).
      rewrite descend_flat in H2. cbn [orb] in H2.
      cbn [sem_chain sem_step]. 
      erewrite (tbind_ext l) in H2; [exact H2|]. intros x. apply chain_key.
    + apply NF in H. exact H.
  - cbn [sem_chain sem_step]. destruct (lookup k l) eqn:L.
    + eapply next_ok; eauto.
    + apply NF in H. exact H.
Qed.

Lemma anyarr_ok (rt:json) (laxm:bool) (self:req -> st -> outcome (resp*st)) (Hfr:frames self) (Hrf:refines rt laxm self) next v found s r s' :
  execAnyArr self next v found s = Ret (r, s') -> good rt laxm s ->
  R found (sem_chain rt laxm (SAnyArr :: next) (cur s) (ign s) laxm v) (verbose s) r.
Proof.
  unfold execAnyArr; intros H G. cbn [sem_chain sem_step].
  assert (L: lax s = laxm) by apply G. rewrite L in H.
  assert (NA: (if laxm then executeNextItem self next v found s
               else if ign s then Ret (mk NotFound None found, s) else Ret (returnVerboseError s (EVerbose 3) found, s)) = Ret (r, s') ->
          R found (if laxm then sem_chain rt laxm next (cur s) (ign s) laxm v else if ign s then tnil else tfail (EVerbose 3)) (verbose s) r).
  { intro H0. destruct laxm eqn:E.
    - eapply next_ok; eauto.
    - destruct (ign s); ret; [apply R_notfound|apply R_vfail]. }
  destruct v as [|z|l|l]; try (apply NA; exact H).
  pose proof Hrf as [_ [H2 _]]. specialize (H2 _ _ _ _ _ _ _ _ _ _ _ H G).
  rewrite descend_flat in H2. cbn [orb] in H2. exact H2.
Qed.

Ltac dobn E :=
  match goal with
  | H : bindo ?x _ = Ret _ |- _ => destruct x as [[? ?]|] eqn:E; cbn [bindo] in H; [|discriminate H]
  end.
(* ---------- generic loop lemmas ---------- *)
Definition exit (found:option (list json)) (r:resp) : bool :=
  match rstat r, found with Failed, _ => true | OK, None => true | _, _ => false end.

Lemma R_exit found t1 t2 vb r1 :
  R found t1 vb r1 -> exit found r1 = true -> R found (tapp t1 t2) vb r1.
Proof.
  unfold exit, R, tapp. destruct t1 as [a1 f1], t2 as [a2 f2]; cbn [fst snd].
  destruct found as [acc|]; intros [F S] E.
  - destruct f1 as [e|]; [cbn; auto|]. destruct S as [S _]. destruct (rstat r1); congruence.
  - destruct a1 as [|x a1].
    + destruct f1 as [e|]; [cbn; auto|]. destruct S as [S _]. rewrite S in E. discriminate.
    + destruct f1; cbn; auto.
Qed.

Lemma R_cont found t1 t2 vb r1 r :
  R found t1 vb r1 -> exit found r1 = false -> R (rfound r1) t2 vb r -> R found (tapp t1 t2) vb r.
Proof.
  unfold exit, R, tapp. destruct t1 as [a1 f1], t2 as [a2 f2]; cbn [fst snd].
  destruct found as [acc|]; intros [F S] E.
  - destruct f1 as [e|]; [destruct S as [S _]; rewrite S in E; discriminate|].
    rewrite F. cbn [fst snd]. intros [F2 S2]. rewrite app_assoc. auto.
  - rewrite F. destruct a1 as [|x a1].
    + destruct f1 as [e|]; [destruct S as [S _]; rewrite S in E; discriminate|]. cbn. auto.
    + destruct S as [S _]. rewrite S in E. discriminate.
Qed.

Lemma R_same found vb r : rfound r = found -> rerr r = None -> rstat r <> Failed -> (found = None -> rstat r = NotFound) ->
  R found tnil vb r.
Proof.
  intros F E S N. destruct found; cbn; rewrite ?app_nil_r; auto.
Qed.

Lemma exit_mk found r : exit found (mk (rstat r) (rerr r) (rfound r)) = exit found r.
Proof. reflexivity. Qed.

Lemma R_mk found t vb r : R found t vb r -> R found t vb (mk (rstat r) (rerr r) (rfound r)).
Proof. destruct found; exact (fun x => x). Qed.

(* what we know about the carried result when the loop goes on *)
Lemma R_noexit found t vb r : R found t vb r -> exit found r = false ->
  rerr r = None /\ rstat r <> Failed /\ (found = None -> rstat r = NotFound) /\
  match found with Some acc => rfound r = Some (acc ++ fst t) | None => rfound r = None end.
Proof.
  unfold exit, R. destruct t as [a f]; cbn [fst snd]. destruct found as [acc|]; intros [F S] E.
  - destruct f as [e|]; [destruct S as [S _]; rewrite S in E; discriminate|].
    destruct S as [S S']. repeat split; auto. discriminate.
  - destruct a as [|x a].
    + destruct f as [e|]; [destruct S as [S _]; rewrite S in E; discriminate|].
      destruct S as [S S']. repeat split; auto; congruence.
    + destruct S as [S _]. rewrite S in E. discriminate.
Qed.

Lemma anyLoop_cons self n v rest found level first last ignp un res s saved :
  anyLoop self n (v :: rest) found level first last ignp un res s saved =
  (do (r1, s1) <-
      (if (first <=? level)%nat then
         match n, found with
         | _ :: _, _ => let s' := if ignp then set_ign s true else s in self (RItem n v (rfound res) un) s'
         | [], Some _ => Ret (mk OK None (option_map (fun l => l ++ [v]) (rfound res)), s)
         | [], None => Ret (mk OK None None, s)
         end
       else Ret (res, s));
    if exit found r1 then Ret (r1, s1) else
    do (r2, s2) <-
      (if (level <? last)%nat then
         match children v with
         | Some cs => self (RAny n cs (rfound r1) (S level) first last ignp un) s1
         | None => Ret (mk NotFound None (rfound r1), s1)
         end
       else Ret (r1, s1));
    if exit found r2 then Ret (r2, s2) else
    anyLoop self n rest found level first last ignp un (mk (rstat r2) (rerr r2) (rfound r2)) s2 saved).
Proof. reflexivity. Qed.

Definition fnd (found:option (list json)) (acc0:list json) := match found with Some _ => Some acc0 | None => None end.

Definition inv_st (ignp:bool) (c0:json) (ig0 vb0:bool) (s:st) :=
  cur s = c0 /\ verbose s = vb0 /\ (ignp = true \/ ign s = ig0).

Lemma anyloop_ok (rt:json) (laxm:bool) (self:req -> st -> outcome (resp*st)) (Hfr:frames self) (Hrf:refines rt laxm self)
  n found level first last ignp un saved c0 ig0 vb0 :
  forall vs res s r s' acc0,
  anyLoop self n vs found level first last ignp un res s saved = Ret (r, s') ->
  good rt laxm s -> inv_st ignp c0 ig0 vb0 s ->
  rfound res = fnd found acc0 -> rerr res = None -> rstat res <> Failed -> (found = None -> rstat res = NotFound) ->
  R (fnd found acc0) (tbind_list vs (desc_v (fun v => sem_chain rt laxm n c0 (ignp || ig0) un v) first last level)) vb0 r.
Proof.
  induction vs as [|v rest IH]; intros res s r s' acc0 H G I F E Sx N.
  - cbn [anyLoop] in H. ret. cbn [tbind_list]. apply R_same; auto.
    destruct found; cbn; [discriminate|auto].
  - rewrite anyLoop_cons in H. cbn [tbind_list]. rewrite desc_v_unfold, tapp_assoc.
    dobn EA.
    (* part A *)
    set (k := fun v => sem_chain rt laxm n c0 (ignp || ig0) un v) in *.
    assert (A: R (fnd found acc0) (if (first <=? level)%nat then k v else tnil) vb0 r0 /\ good rt laxm s0 /\ inv_st ignp c0 ig0 vb0 s0).
    { pose proof I as [I1 [I2 I3]]. destruct (first <=? level)%nat.
      - destruct n as [|x n'].
        + destruct found as [a|]; ret; (split; [|split; assumption]).
          * rewrite F. cbn. unfold k. cbn. split; [reflexivity|split; [discriminate|reflexivity]].
          * cbn. auto.
        + pose proof (Hfr _ _ _ _ EA) as K.
          pose proof Hrf as [H1 _].
          assert (G': good rt laxm (if ignp then set_ign s true else s)) by (destruct ignp; exact G).
          specialize (H1 _ _ _ _ _ _ _ EA G').
          assert (C1: cur (if ignp then set_ign s true else s) = c0) by (destruct ignp; exact I1).
          assert (C2: verbose (if ignp then set_ign s true else s) = vb0) by (destruct ignp; exact I2).
          assert (C3: ign (if ignp then set_ign s true else s) = (ignp || ig0)%bool).
          { destruct ignp; cbn; [reflexivity|]. destruct I3 as [I3|I3]; [discriminate|exact I3]. }
          rewrite C1, C2, C3, F in H1. split; [exact H1|]. split.
          * eapply good_ctx; eauto.
          * unfold inv_st. rewrite (ctx_cur _ _ K), (ctx_vb _ _ K), (ctx_ign _ _ K), C1, C2, C3.
            repeat split. destruct ignp; [left; reflexivity|right; reflexivity].
      - ret. split; [|split; assumption]. apply R_same; auto. destruct found; cbn; [discriminate|auto]. }
    destruct A as [A [G0 I0]].
    destruct (exit found r0) eqn:X.
    + ret. apply R_exit; [exact A|]. destruct found; exact X.
    + dobn EB.
      assert (X0: exit (fnd found acc0) r0 = false) by (destruct found; exact X).
      pose proof (R_noexit _ _ _ _ A X0) as [Er0 [Sr0 [N1 F1]]].
      eapply R_cont; [exact A|exact X0|]. clear A.
      (* part B *)
      set (tB := if (level <? last)%nat then match children v with Some cs => tbind_list cs (desc_v k first last (S level)) | None => tnil end else tnil).
      assert (B: R (rfound r0) tB vb0 r1 /\ good rt laxm s1 /\ inv_st ignp c0 ig0 vb0 s1).
      { unfold tB. destruct (level <? last)%nat eqn:LL.
        - destruct (children v) as [cs|].
          + pose proof (Hfr _ _ _ _ EB) as K.
            pose proof Hrf as [_ [H2 _]]. specialize (H2 _ _ _ _ _ _ _ _ _ _ _ EB G0).
            destruct I0 as [J1 [J2 J3]].
            assert (C3: (ignp || ign s0)%bool = (ignp || ig0)%bool).
            { destruct ignp; [reflexivity|]. destruct J3 as [J3|J3]; [discriminate|cbn; exact J3]. }
            rewrite J1, J2, C3 in H2. unfold descend in H2.
            assert (LT: (last <? S level)%nat = false) by (apply Nat.ltb_lt in LL; apply Nat.ltb_ge; lia).
            rewrite LT in H2. split; [exact H2|]. split; [eapply good_ctx; eauto|].
            unfold inv_st. rewrite (ctx_cur _ _ K), (ctx_vb _ _ K), (ctx_ign _ _ K). repeat split; assumption.
          + ret. split; [|split; assumption]. apply R_same; cbn; auto; discriminate.
        - ret. split; [|split; assumption].
          apply R_same; auto. intro Hn. apply N1. destruct found; [rewrite F1 in Hn; discriminate|reflexivity]. }
      destruct B as [B [G1 I1]].
      assert (FF: rfound r0 = fnd found (match rfound r0 with Some x => x | None => [] end)).
      { destruct found; cbn in F1 |- *; rewrite F1; reflexivity. }
      rewrite FF in B |- *.
      destruct (exit found r1) eqn:X1.
      * ret. apply R_exit; [exact B|]. destruct found; exact X1.
      * assert (X1': exit (fnd found (match rfound r0 with Some x => x | None => [] end)) r1 = false) by (destruct found; exact X1).
        pose proof (R_noexit _ _ _ _ B X1') as [Er1 [Sr1 [N3 F3]]].
        eapply R_cont; [exact B|exact X1'|].
        assert (FF2: rfound r1 = fnd found (match rfound r1 with Some x => x | None => [] end)).
        { destruct found; cbn in F3 |- *; rewrite F3; reflexivity. }
        rewrite FF2.
        eapply IH; eauto; cbn [rfound rerr rstat mk].
        intro Hn. apply N3. destruct found; [discriminate|reflexivity].
Qed.

Lemma R_upgrade found t vb r : R found t vb r -> rstat r <> Failed -> rerr r = None -> found <> None ->
  R found t vb (mk OK None (rfound r)).
Proof.
  destruct found as [acc|]; [|congruence]. unfold R. destruct t as [a [e|]]; cbn [fst snd]; intros [F [S1 S2]] NS NE _.
  - congruence.
  - split; [exact F|split; [discriminate|reflexivity]].
Qed.

Lemma anyitem_ok (rt:json) (laxm:bool) (self:req -> st -> outcome (resp*st)) (Hfr:frames self) (Hrf:refines rt laxm self)
  n vs found level first last ignp un s r s' :
  execAnyItem self n vs found level first last ignp un s = Ret (r, s') -> good rt laxm s ->
  R found (descend (fun v => sem_chain rt laxm n (cur s) (ignp || ign s) un v) vs level first last) (verbose s) r.
Proof.
  unfold execAnyItem, descend; intros H G.
  destruct (last <? level)%nat; [ret; apply R_notfound|].
  dobn EL.
  assert (L: R (fnd found (match found with Some a => a | None => [] end))
               (tbind_list vs (desc_v (fun v => sem_chain rt laxm n (cur s) (ignp || ign s) un v) first last level)) (verbose s) r0).
  { eapply anyloop_ok; eauto; cbn [mk rfound rerr rstat]; try discriminate; try reflexivity.
    - repeat split. right; reflexivity.
    - destruct found; reflexivity. }
  assert (FE: fnd found (match found with Some a => a | None => [] end) = found) by (destruct found; reflexivity).
  rewrite FE in L.
  destruct (rstat r0) eqn:ST; destruct (rerr r0) eqn:ER; try (ret; exact L).
  - (* OK, None *)
    match goal with H0 : context[if ?c then _ else _] |- _ => destruct c eqn:GR end; ret; [|exact L].
    apply R_upgrade; auto; try congruence. destruct found; [discriminate|discriminate].
  - match goal with H0 : context[if ?c then _ else _] |- _ => destruct c eqn:GR end; ret; [|exact L].
    apply R_upgrade; auto; try congruence. destruct found; [discriminate|discriminate].
Qed.

Lemma sem_pred_hard rt laxm p : forall c ig v e, snd (sem_pred rt laxm p c ig v) = Some e -> forall vb, vis vb e = Some e.
Proof.
  assert (HH: forall o e, hard o = Some e -> forall vb, vis vb e = Some e).
  { intros [[n|n|]|] e; cbn; intro H; try discriminate; inv H; reflexivity. }
  induction p as [e0|l r|a IHa b IHb|a IHa|a IHa]; intros c ig v e.
  - rewrite sem_pred_exists. cbn zeta.
    destruct (sem_chain rt laxm e0 c ig laxm v) as [a f]. cbn [fst snd].
    destruct laxm; destruct a; destruct f; cbn [snd fst]; intro H; try discriminate; eapply HH; eauto.
  - rewrite sem_pred_eq. cbn zeta.
    destruct (snd (sem_chain rt laxm l c ig laxm v)); [cbn [snd]; intro H; eapply HH; eauto|].
    destruct (snd (sem_chain rt laxm r c ig laxm v)); cbn [snd]; intro H; [eapply HH; eauto|discriminate].
  - cbn [sem_pred]. specialize (IHa c ig v). specialize (IHb c ig v).
    destruct (sem_pred rt laxm a c ig v) as [[| |] [ea|]]; cbn in *; try (intro H; inv H; eauto; fail);
      destruct (sem_pred rt laxm b c ig v) as [[| |] [eb|]]; cbn in *; intro H; inv H; eauto.
  - cbn [sem_pred]. specialize (IHa c ig v).
    destruct (sem_pred rt laxm a c ig v) as [[| |] [ea|]]; cbn in *; intro H; inv H; eauto.
  - cbn [sem_pred]. specialize (IHa c ig v).
    destruct (sem_pred rt laxm a c ig v) as [[| |] [ea|]]; cbn in *; intro H; inv H; eauto.
Qed.

Lemma R_hardfail found vb e : (forall vb, vis vb e = Some e) -> R found (tfail e) vb (mk Failed (Some e) found).
Proof. intro H. destruct found; cbn; rewrite ?app_nil_r, H; auto. Qed.

Lemma chain_filter rt laxm p next c ig x :
  sem_chain rt laxm (SFilter p :: next) c ig false x =
  match sem_pred rt laxm p x ig x with
  | (PT, _) => sem_chain rt laxm next c ig laxm x
  | (_, Some e) => tfail e
  | (_, None) => tnil end.
Proof. destruct x; reflexivity. Qed.

Lemma filter_ok (rt:json) (laxm:bool) (self:req -> st -> outcome (resp*st)) (Hfr:frames self) (Hrf:refines rt laxm self)
  p next v found u s r s' :
  execFilter self p next v found u s = Ret (r, s') -> good rt laxm s ->
  R found (sem_chain rt laxm (SFilter p :: next) (cur s) (ign s) u v) (verbose s) r.
Proof.
  unfold execFilter; intros H G.
  assert (ONE: forall r s',
     (do (r0, s1) <- self (RBool p v) (set_cur s v);
      match rpred r0 with
      | PT => executeNextItem self next v found (set_cur s1 (cur s))
      | _ => match rerr r0 with Some e => Ret (mk Failed (Some e) found, set_cur s1 (cur s)) | None => Ret (mk NotFound None found, set_cur s1 (cur s)) end
      end) = Ret (r, s') ->
     R found (sem_chain rt laxm (SFilter p :: next) (cur s) (ign s) false v) (verbose s) r).
  { clear H. intros r1 s1' H. rewrite chain_filter. dobn EP.
    pose proof (Hfr _ _ _ _ EP) as K. apply restore_cur in K.
    pose proof Hrf as [_ [_ H3]]. assert (G': good rt laxm (set_cur s v)) by exact G.
    specialize (H3 _ _ _ _ _ EP G'). cbn [cur ign set_cur] in H3.
    destruct (sem_pred rt laxm p v (ign s) v) as [po pe] eqn:SP. inv H3.
    destruct (rpred r0).
    - pose proof (next_ok _ _ _ Hfr Hrf _ _ _ _ _ _ H (good_ctx _ _ _ _ K G)) as N.
      rewrite (ctx_cur _ _ K), (ctx_ign _ _ K), (ctx_vb _ _ K) in N. exact N.
    - destruct (rerr r0) as [e|] eqn:ER; ret; [|apply R_notfound].
      apply R_hardfail. apply (sem_pred_hard rt laxm p v (ign s) v e). rewrite SP; reflexivity.
    - destruct (rerr r0) as [e|] eqn:ER; ret; [|apply R_notfound].
      apply R_hardfail. apply (sem_pred_hard rt laxm p v (ign s) v e). rewrite SP; reflexivity. }
  destruct v as [|z|l|l]; try (eapply ONE; exact H).
  destruct u; [|eapply ONE; exact H].
  pose proof Hrf as [_ [H2 _]]. specialize (H2 _ _ _ _ _ _ _ _ _ _ _ H G).
  rewrite descend_flat in H2. cbn [orb] in H2.
  cbn [sem_chain sem_step].
  erewrite (tbind_ext l) in H2; [exact H2|]. intro x. rewrite chain_filter. reflexivity.
Qed.

Lemma any_ok (rt:json) (laxm:bool) (self:req -> st -> outcome (resp*st)) (Hfr:frames self) (Hrf:refines rt laxm self)
  f l next v found s r s' :
  execAny self f l next v found s = Ret (r, s') -> good rt laxm s ->
  R found (sem_chain rt laxm (SAny f l :: next) (cur s) (ign s) laxm v) (verbose s) r.
Proof.
  unfold execAny; intros H G. cbn [sem_chain sem_step].
  set (kk := fun x => sem_chain rt laxm next (cur s) true laxm x).
  (* the continuation over the children *)
  assert (C: forall s0 fnd0 r1 s1, cur s0 = cur s -> verbose s0 = verbose s -> good rt laxm s0 ->
     match children v with
     | Some vs => do (r, s2) <- self (RAny next vs fnd0 one f l true (lax s0)) s0; Ret (r, s2)
     | None => Ret (mk NotFound None fnd0, s0) end = Ret (r1, s1) ->
     R fnd0 (match children v with Some cs => descend kk cs 1 f l | None => tnil end) (verbose s) r1).
  { intros s0 fnd0 r1 s1 C1 C2 G0 H0. destruct (children v) as [vs|].
    - dobn EC. ret. pose proof Hrf as [_ [H2 _]]. specialize (H2 _ _ _ _ _ _ _ _ _ _ _ EC G0).
      cbn [orb] in H2. rewrite C1, C2 in H2. destruct G0 as [L0 _]. rewrite L0 in H2. exact H2.
    - ret. apply R_notfound. }
  destruct f as [|f'].
  - dobn E0.
    assert (G1: good rt laxm (set_ign s true)) by exact G.
    pose proof (next_ok _ _ _ Hfr Hrf _ _ _ _ _ _ E0 G1) as N. cbn [cur ign verbose set_ign] in N.
    pose proof (frame_next _ Hfr _ _ _ _ _ _ E0) as K.
    destruct (exit found r0) eqn:X.
    + assert (r = r0).
      { unfold exit in X. destruct (rstat r0); [destruct found; [discriminate|ret; reflexivity]|discriminate|ret; reflexivity]. }
      subst r. apply R_exit; assumption.
    + eapply R_cont; [exact N|exact X|].
      assert (H': (do (r2, s2) <- match children v with
                    | Some vs => do (r, s2) <- self (RAny next vs (rfound r0) one 0 l true (lax (set_ign s0 true))) (set_ign s0 true); Ret (r, s2)
                    | None => Ret (mk NotFound None (rfound r0), set_ign s0 true) end; Ret (r2, set_ign s2 (ign s))) = Ret (r, s')).
      { unfold exit in X. destruct (rstat r0); [destruct found; [exact H|discriminate]|exact H|discriminate]. }
      clear H. dobn EC. ret.
      eapply (C (set_ign s0 true)); [| | |exact EC]; cbn [cur verbose set_ign].
      * pose proof (ctx_cur _ _ K) as Kc. exact Kc.
      * pose proof (ctx_vb _ _ K) as Kv. exact Kv.
      * apply (good_ctx _ _ _ _ K) in G1. exact G1.
  - rewrite tapp_nil_l. eapply (C s); eauto.
Qed.

Lemma item_ok (rt:json) (laxm:bool) (self:req -> st -> outcome (resp*st)) (Hfr:frames self) (Hrf:refines rt laxm self)
  n v found u s r s' :
  execItem self n v found u s = Ret (r, s') -> good rt laxm s ->
  R found (sem_chain rt laxm n (cur s) (ign s) u v) (verbose s) r.
Proof.
  unfold execItem; intros H G0.
  assert (DN: done_now s = false) by (unfold done_now; destruct G0 as [_ [_ GC]]; rewrite GC; reflexivity).
  rewrite DN in H.
  assert (G: good rt laxm (tick s)) by exact G0.
  change (cur s) with (cur (tick s)); change (ign s) with (ign (tick s)); change (verbose s) with (verbose (tick s)).
  generalize dependent (tick s). clear s G0 DN. intros s H G.
  pose proof G as [GL [GR GC]].
  destruct n as [|x next]; [ret; apply R_ret|].
  destruct x as [| |k| |f l|p|z].
  - cbn [sem_chain sem_step]. pose proof (next_ok _ _ _ Hfr Hrf _ _ _ _ _ _ H G) as N. rewrite GR in N. exact N.
  - cbn [sem_chain sem_step]. eapply next_ok; eauto.
  - eapply key_ok; eauto.
  - pose proof (anyarr_ok _ _ _ Hfr Hrf _ _ _ _ _ _ H G) as A. cbn [sem_chain sem_step] in A |- *. exact A.
  - pose proof (any_ok _ _ _ Hfr Hrf _ _ _ _ _ _ _ _ H G) as A. cbn [sem_chain sem_step] in A |- *. exact A.
  - eapply filter_ok; eauto.
  - cbn [sem_chain sem_step]. destruct next as [|y next'].
    + destruct found as [acc|]; [eapply next_ok; eauto|]. ret. cbn. auto.
    + eapply next_ok; eauto.
Qed.

(* operands *)
Definition opR (found:option (list json)) (t:trace) (unw:bool) (r:resp) : Prop :=
  match found with
  | None => R None t false r
  | Some acc =>
    match snd t with
    | Some e => rstat r = Failed /\ rerr r = vis false e
    | None => rstat r <> Failed /\ rerr r = None /\ rfound r = Some (acc ++ (if unw then unwrapSeq (fst t) else fst t))
    end
  end.

Lemma operand_ok (rt:json) (laxm:bool) (self:req -> st -> outcome (resp*st)) (Hfr:frames self) (Hrf:refines rt laxm self)
  e v u found s r s' :
  operand self e v u found s = Ret (r, s') -> good rt laxm s -> (u && laxm = true -> found = Some []) ->
  opR found (sem_chain rt laxm e (cur s) (ign s) laxm v) (u && laxm) r.
Proof.
  unfold operand; intros H G FU. pose proof G as [GL GR]. cbn [lax set_verbose] in H. rewrite GL in H.
  assert (G0: good rt laxm (set_verbose s false)) by exact G.
  pose proof Hrf as [H1 _].
  destruct (u && laxm)%bool eqn:UL.
  - specialize (FU eq_refl). subst found.
    destruct (self (RItem e v (Some []) laxm) (set_verbose s false)) as [[rr ss]|] eqn:E1; cbn [bindo] in H; [|discriminate H].
    specialize (H1 _ _ _ _ _ _ _ E1 G0). cbn [cur ign verbose set_verbose lax] in H1.
    destruct (sem_chain rt laxm e (cur s) (ign s) laxm v) as [a f]. unfold opR. cbn [R fst snd app] in H1 |- *.
    destruct H1 as [F1 S1]. destruct f as [er|].
    + destruct S1 as [S1 S1']. rewrite S1 in H. cbn [bindo] in H. ret. auto.
    + destruct S1 as [S1 S1']. destruct (rstat rr) eqn:ST; try congruence; cbn [bindo] in H; ret; cbn; rewrite F1; cbn; repeat split; try discriminate; try reflexivity.
  - destruct (self (RItem e v found laxm) (set_verbose s false)) as [[rr ss]|] eqn:E1; cbn [bindo] in H; [|discriminate H]. ret.
    specialize (H1 _ _ _ _ _ _ _ E1 G0). cbn [cur ign verbose set_verbose lax] in H1.
    unfold opR. destruct found as [acc|]; [|exact H1].
    destruct (sem_chain rt laxm e (cur s) (ign s) laxm v) as [a f]. cbn [R fst snd] in H1 |- *.
    destruct H1 as [F1 S1]. destruct f; intuition.
Qed.

Lemma vis_false e : vis false e = hard (Some e).
Proof. destruct e; reflexivity. Qed.

Lemma bool_ok (rt:json) (laxm:bool) (self:req -> st -> outcome (resp*st)) (Hfr:frames self) (Hrf:refines rt laxm self)
  p v s r s' :
  execBool self p v s = Ret (r, s') -> good rt laxm s ->
  (rpred r, rerr r) = sem_pred rt laxm p (cur s) (ign s) v.
Proof.
  unfold execBool; intros H G. pose proof G as [GL GR]. pose proof Hrf as [_ [_ H3]].
  destruct p as [e|el er|a b|a|a].
  - rewrite sem_pred_exists. cbn zeta. rewrite GL in H.
    destruct laxm eqn:LX.
    + destruct (operand self e v false None s) as [[ro so]|] eqn:EO; cbn [bindo] in H; [|discriminate H].
      pose proof (operand_ok _ _ _ Hfr Hrf _ _ _ _ _ _ _ EO G ltac:(discriminate)) as O.
      unfold opR in O. cbn [R] in O.
      destruct (sem_chain rt true e (cur s) (ign s) true v) as [a f]. cbn [fst snd] in O |- *.
      destruct O as [_ O]. destruct a as [|x a].
      * destruct f as [er|]; destruct O as [O1 O2]; rewrite O1 in H; ret; cbn [rpred rerr mkp]; [rewrite O2, vis_false|]; reflexivity.
      * destruct O as [O1 O2]; rewrite O1 in H; ret; destruct f; reflexivity.
    + destruct (operand self e v false (Some []) s) as [[ro so]|] eqn:EO; cbn [bindo] in H; [|discriminate H].
      pose proof (operand_ok _ _ _ Hfr Hrf _ _ _ _ _ _ _ EO G ltac:(discriminate)) as O.
      unfold opR in O.
      destruct (sem_chain rt false e (cur s) (ign s) false v) as [a f]. cbn [fst snd andb app] in O |- *.
      destruct f as [er|].
      * destruct O as [O1 O2]. rewrite O1 in H. ret. cbn [rpred rerr mkp]. rewrite O2, vis_false. reflexivity.
      * destruct O as [O1 [O2 O3]]. rewrite O3 in H.
        destruct (rstat ro); try congruence; destruct a; ret; reflexivity.
  - rewrite sem_pred_eq. cbn zeta.
    destruct (operand self el v true (Some []) s) as [[rl sl]|] eqn:EL; cbn [bindo] in H; [|discriminate H].
    pose proof (operand_ok _ _ _ Hfr Hrf _ _ _ _ _ _ _ EL G ltac:(reflexivity)) as OL.
    pose proof (frame_operand _ Hfr _ _ _ _ _ _ _ EL) as KL.
    unfold opR in OL.
    destruct (sem_chain rt laxm el (cur s) (ign s) laxm v) as [al fl]. cbn [fst snd andb app] in OL |- *.
    destruct fl as [e1|].
    + destruct OL as [O1 O2]. rewrite O1 in H. ret. cbn [rpred rerr mkp]. rewrite O2, vis_false. reflexivity.
    + destruct OL as [O1 [O2 O3]].
      assert (H': (do (rr, s2) <- operand self er v true (Some []) sl;
                   match rstat rr with
                   | Failed => Ret (mkp PU (rerr rr), s2)
                   | _ => Ret (mkp (pairs (negb (lax s2)) (match rfound rl with Some x => x | None => [] end)
                                      (match rfound rr with Some x => x | None => [] end) false false) None, s2) end) = Ret (r, s')).
      { destruct (rstat rl); try congruence; exact H. }
      clear H.
      destruct (operand self er v true (Some []) sl) as [[rr sr]|] eqn:ER; cbn [bindo] in H'; [|discriminate H'].
      pose proof (operand_ok _ _ _ Hfr Hrf _ _ _ _ _ _ _ ER (good_ctx _ _ _ _ KL G) ltac:(reflexivity)) as OR.
      pose proof (frame_operand _ Hfr _ _ _ _ _ _ _ ER) as KR.
      rewrite (ctx_cur _ _ KL), (ctx_ign _ _ KL) in OR. unfold opR in OR.
      destruct (sem_chain rt laxm er (cur s) (ign s) laxm v) as [ar fr]. cbn [fst snd andb app] in OR |- *.
      destruct fr as [e2|].
      * destruct OR as [P1 P2]. rewrite P1 in H'. ret. cbn [rpred rerr mkp]. rewrite P2, vis_false. reflexivity.
      * destruct OR as [P1 [P2 P3]].
        assert (LS: lax sr = laxm).
        { pose proof (ctx_eq_trans _ _ _ KL KR) as K. unfold ctx_eq in K. intuition congruence. }
        rewrite O3, P3, LS in H'.
        destruct (rstat rr); try congruence; ret; cbn [rpred rerr mkp]; destruct laxm; reflexivity.
  - cbn [sem_pred].
    destruct (self (RBool a v) s) as [[ra sa]|] eqn:EA; cbn [bindo] in H; [|discriminate H].
    pose proof (H3 _ _ _ _ _ EA G) as PA. pose proof (Hfr _ _ _ _ EA) as KA.
    rewrite <- PA.
    assert (CONT: forall r s', (do (r2, s2) <- self (RBool b v) sa;
                 match rpred r2 with PT => Ret (mkp (rpred ra) (rerr r2), s2) | _ => Ret (r2, s2) end) = Ret (r, s') ->
              (rpred r, rerr r) = match sem_pred rt laxm b (cur s) (ign s) v with (PT, e2) => (rpred ra, e2) | x => x end).
    { clear H. intros r1 s1 H.
      destruct (self (RBool b v) sa) as [[rb sb]|] eqn:EB; cbn [bindo] in H; [|discriminate H].
      pose proof (H3 _ _ _ _ _ EB (good_ctx _ _ _ _ KA G)) as PB.
      rewrite (ctx_cur _ _ KA), (ctx_ign _ _ KA) in PB. rewrite <- PB.
      destruct (rpred rb) eqn:RPB; ret; cbn [rpred rerr mkp]; rewrite ?RPB; reflexivity. }
    destruct (rpred ra) eqn:RP; destruct (rerr ra) eqn:RE.
    + ret. rewrite RP, RE. reflexivity.
    + apply (CONT _ _ H).
    + ret. rewrite RP, RE. reflexivity.
    + ret. rewrite RP, RE. reflexivity.
    + ret. rewrite RP, RE. reflexivity.
    + apply (CONT _ _ H).
  - cbn [sem_pred].
    destruct (self (RBool a v) s) as [[ra sa]|] eqn:EA; cbn [bindo] in H; [|discriminate H].
    pose proof (H3 _ _ _ _ _ EA G) as PA. rewrite <- PA.
    destruct (rpred ra) eqn:RP; ret; cbn; rewrite ?RP; reflexivity.
  - cbn [sem_pred].
    destruct (self (RBool a v) s) as [[ra sa]|] eqn:EA; cbn [bindo] in H; [|discriminate H].
    pose proof (H3 _ _ _ _ _ EA G) as PA. rewrite <- PA.
    destruct (rerr ra) eqn:RE; ret; cbn; destruct (rpred ra); reflexivity.
Qed.

Theorem refine_body (rt:json) (laxm:bool) (self:req -> st -> outcome (resp*st)) :
  frames self -> refines rt laxm self -> refines rt laxm (body self).
Proof.
  intros Hfr Hrf. repeat split.
  - intros n v found u s r s' H G. cbn [body] in H. eapply item_ok; eauto.
  - intros. eapply anyitem_ok; eauto.
  - intros. eapply bool_ok; eauto.
Qed.

Theorem refine_run rt laxm : forall fuel, refines rt laxm (run fuel).
Proof.
  induction fuel as [|n IH].
  - repeat split; intros; discriminate.
  - cbn [run]. apply refine_body; [apply frame_run|exact IH].
Qed.

(* The public statement: Query (collecting, verbose) and Exists (non-collecting) are projections of one trace *)
Definition init (rt:json) (laxm:bool) (vb:bool) : st := {| root:=rt; cur:=rt; ign:=laxm; verbose:=vb; lax:=laxm; polls:=0; cancel_at:=None |}.

Corollary query_is_trace fuel rt laxm vb n r s' :
  run fuel (RItem n rt (Some []) laxm) (init rt laxm vb) = Ret (r, s') ->
  let t := sem_chain rt laxm n rt laxm laxm rt in
  rfound r = Some (fst t) /\
  match snd t with Some e => rstat r = Failed /\ rerr r = vis vb e | None => rstat r <> Failed /\ rerr r = None end.
Proof.
  intros H. pose proof (refine_run rt laxm fuel) as [H1 _].
  specialize (H1 _ _ _ _ _ _ _ H (conj eq_refl (conj eq_refl eq_refl))). exact H1.
Qed.

Corollary exists_is_trace fuel rt laxm vb n r s' :
  run fuel (RItem n rt None laxm) (init rt laxm vb) = Ret (r, s') ->
  let t := sem_chain rt laxm n rt laxm laxm rt in
  match fst t, snd t with
  | _ :: _, _ => rstat r = OK /\ rerr r = None
  | [], Some e => rstat r = Failed /\ rerr r = vis vb e
  | [], None => rstat r = NotFound /\ rerr r = None end.
Proof.
  intros H. pose proof (refine_run rt laxm fuel) as [H1 _].
  specialize (H1 _ _ _ _ _ _ _ H (conj eq_refl (conj eq_refl eq_refl))). exact (proj2 H1).
Qed.
Print Assumptions query_is_trace.
Print Assumptions exists_is_trace.
