From Coq Require Import List ZArith String Bool Lia Arith.
Import ListNotations.
Require Import Mini.

(* ---------- sizes and depths ---------- *)
Fixpoint sz_step (s:step) : nat :=
  match s with SFilter p => sz_pred p | _ => 0 end
with sz_pred (p:pred) : nat :=
  let szc := fix szc (l:list step) : nat := match l with [] => 0 | s :: r => S (sz_step s + szc r) end in
  match p with
  | PExists e => S (szc e)
  | PEq l r => S (szc l + szc r)
  | PAnd a b => S (sz_pred a + sz_pred b)
  | PNot a | PIsUnknown a => S (sz_pred a)
  end.
Fixpoint sz (l:list step) : nat := match l with [] => 0 | s :: r => S (sz_step s + sz r) end.

Fixpoint jdepth (v:json) : nat :=
  match v with
  | JArr l => S ((fix mx (l:list json) := match l with [] => 0 | x :: r => Nat.max (jdepth x) (mx r) end) l)
  | JObj l => S ((fix mx (l:list (string*json)) := match l with [] => 0 | x :: r => Nat.max (jdepth (snd x)) (mx r) end) l)
  | _ => 0 end.
Fixpoint maxd (l:list json) : nat := match l with [] => 0 | x :: r => Nat.max (jdepth x) (maxd r) end.

Lemma jdepth_arr l : jdepth (JArr l) = S (maxd l).
Proof. reflexivity. Qed.
Lemma jdepth_obj l : jdepth (JObj l) = S (maxd (map snd l)).
Proof. cbn [jdepth]. f_equal. induction l as [|x r IH]; cbn [maxd map]; [reflexivity|rewrite IH; reflexivity]. Qed.
Lemma maxd_in x l : In x l -> jdepth x <= maxd l.
Proof. induction l as [|y l IH]; cbn; [tauto|]. intros [E|H]; [subst; lia|specialize (IH H); lia]. Qed.
Lemma lookup_depth k l x : lookup k l = Some x -> jdepth x <= maxd (map snd l).
Proof.
  induction l as [|[k' v] l IH]; cbn; [discriminate|].
  destruct (String.eqb k k'); [intro H; inv H; lia|intro H; specialize (IH H); lia].
Qed.
Lemma children_depth v cs : children v = Some cs -> S (maxd cs) = jdepth v.
Proof.
  destruct v; cbn [children]; try discriminate; intro H; inv H; [rewrite jdepth_arr|rewrite jdepth_obj]; reflexivity.
Qed.

(* ---------- the measure ---------- *)
Section M.
Variable D : nat.
Definition K := 2 * D + 6.
Definition m (q:req) : nat :=
  match q with
  | RItem n _ _ u => sz n * K + (if u then D + 3 else 0)
  | RAny n vs _ _ _ _ _ un => sz n * K + (if un then D + 4 else 1) + maxd vs
  | RBool p _ => sz_pred p * K
  end.
Definition vok (q:req) : Prop :=
  match q with
  | RItem _ v _ _ => jdepth v <= D
  | RAny _ vs _ _ _ _ _ _ => maxd vs < D \/ vs = []
  | RBool _ v => jdepth v <= D
  end.
Definition sok (s:st) : Prop := jdepth (root s) <= D /\ jdepth (cur s) <= D.

Definition total_below (self:req -> st -> outcome (resp*st)) (bound:nat) : Prop :=
  forall q s, vok q -> sok s -> m q < bound -> exists r s', self q s = Ret (r, s').
End M.

Definition stepA (self:req -> st -> outcome (resp*st)) n (v:json) (found:option (list json)) (level first:nat) (ignp un:bool) (res:resp) (s:st) :=
  if (first <=? level)%nat then
    match n, found with
    | _ :: _, _ => self (RItem n v (rfound res) un) (if ignp then set_ign s true else s)
    | [], Some _ => Ret (mk OK None (option_map (fun l => l ++ [v]) (rfound res)), s)
    | [], None => Ret (mk OK None None, s)
    end
  else Ret (res, s).
Definition stepB (self:req -> st -> outcome (resp*st)) n (v:json) (level first last:nat) (ignp un:bool) (r1:resp) (s1:st) :=
  if (level <? last)%nat then
    match children v with
    | Some cs => self (RAny n cs (rfound r1) (S level) first last ignp un) s1
    | None => Ret (mk NotFound None (rfound r1), s1)
    end
  else Ret (r1, s1).
Definition exitb (found:option (list json)) (r:resp) : bool :=
  match rstat r, found with Failed, _ => true | OK, None => true | _, _ => false end.
Lemma anyLoop_cons self n v rest found level first last ignp un res s saved :
  anyLoop self n (v :: rest) found level first last ignp un res s saved =
  (do (r1, s1) <- stepA self n v found level first ignp un res s;
   if exitb found r1 then Ret (r1, s1) else
   do (r2, s2) <- stepB self n v level first last ignp un r1 s1;
   if exitb found r2 then Ret (r2, s2) else
   anyLoop self n rest found level first last ignp un (mk (rstat r2) (rerr r2) (rfound r2)) s2 saved).
Proof. reflexivity. Qed.

Ltac ret := match goal with H : Ret (_, _) = Ret (?r, ?s) |- _ => let Hr := fresh "Hr" in let Hs := fresh "Hs" in injection H as Hr Hs; subst r; try subst s; clear H end.

Section Body.
Variable D : nat.
Variable self : req -> st -> outcome (resp*st).
Variable B : nat.
Hypothesis Hfr : frames self.
Hypothesis Htot : total_below D self B.

Notation K := (K D).
Definition T (x:outcome (resp*st)) : Prop := exists r s', x = Ret (r, s').

Lemma sok_ctx s s' : ctx_eq s s' -> sok D s -> sok D s'.
Proof. unfold ctx_eq, sok. intuition congruence. Qed.

Lemma T_ret r s : T (Ret (r, s)). Proof. exists r, s. reflexivity. Qed.

Lemma next_t next v found s :
  jdepth v <= D -> sok D s -> sz next * K + D + 3 < B -> T (executeNextItem self next v found s).
Proof.
  intros V Ss M. unfold executeNextItem. destruct next as [|x n]; [apply T_ret|].
  apply Htot; [exact V|exact Ss|]. cbn [m]. destruct (lax s); lia.
Qed.

(* run a first computation, then a continuation from any context-equal state *)
Lemma T_bind (x:outcome (resp*st)) (k:resp*st -> outcome (resp*st)) (s:st) :
  T x -> (forall r s1, x = Ret (r, s1) -> ctx_eq s s1) -> (forall r s1, ctx_eq s s1 -> T (k (r, s1))) -> T (bindo x k).
Proof.
  intros [r [s1 E]] F C. rewrite E. cbn [bindo]. apply C. eapply F; eauto.
Qed.

Lemma key_t k next v found (u:bool) s :
  jdepth v <= D -> sok D s -> S (sz next) * K + (if u then D + 3 else 0) <= B -> T (execKey self k next v found u s).
Proof.
  intros V Ss M. unfold execKey. pose proof (eq_refl K) as HK. unfold Fuel.K in HK at 2.
  destruct v as [|z|l|l]; try (destruct (ign s); apply T_ret).
  - destruct u; [|destruct (ign s); apply T_ret].
    apply Htot; [|exact Ss|].
    + cbn [vok]. rewrite jdepth_arr in V. left. lia.
    + cbn [m sz sz_step]. rewrite jdepth_arr in V. nia.
  - destruct (lookup k l) eqn:L; [|destruct (ign s); apply T_ret].
    apply next_t; [|exact Ss|].
    + apply lookup_depth in L. rewrite jdepth_obj in V. lia.
    + destruct u; nia.
Qed.

Lemma anyarr_t next v found s :
  jdepth v <= D -> sok D s -> S (sz next) * K <= B -> T (execAnyArr self next v found s).
Proof.
  intros V Ss M. unfold execAnyArr. pose proof (eq_refl K) as HK. unfold Fuel.K in HK at 2.
  destruct v as [|z|l|l]; try (destruct (lax s); [apply next_t; [exact V|exact Ss|nia]|destruct (ign s); apply T_ret]).
  rewrite jdepth_arr in V.
  apply Htot; [left; lia|exact Ss|]. cbn [m]. destruct (lax s); nia.
Qed.

Lemma children_ok v vs : children v = Some vs -> jdepth v <= D -> maxd vs < D.
Proof. intros C V. apply children_depth in C. lia. Qed.

Lemma any_t f l next v found s :
  jdepth v <= D -> sok D s -> S (sz next) * K <= B -> T (execAny self f l next v found s).
Proof.
  intros V Ss M. unfold execAny. pose proof (eq_refl K) as HK. unfold Fuel.K in HK at 2.
  assert (CONT: forall s0 fnd g, sok D s0 ->
     T (do (r2, s2) <- match children v with
        | Some vs => do (r, s2) <- self (RAny next vs fnd one f l true (lax s0)) s0; Ret (r, s2)
        | None => Ret (mk NotFound None fnd, s0) end; Ret (r2, g s2))).
  { intros s0 fnd g S0. destruct (children v) as [vs|] eqn:C; cbn [bindo]; [|apply T_ret].
    destruct (Htot (RAny next vs fnd one f l true (lax s0)) s0) as [r [s1 E]].
    - left. eapply children_ok; eauto.
    - exact S0.
    - cbn [m]. pose proof (children_ok _ _ C V). destruct (lax s0); nia.
    - rewrite E. cbn [bindo]. apply T_ret. }
  destruct f as [|f'].
  - assert (S1: sok D (set_ign s true)) by exact Ss.
    destruct (next_t next v found (set_ign s true) V S1 ltac:(nia)) as [r0 [s0 E0]]. rewrite E0. cbn [bindo].
    pose proof (frame_next _ Hfr _ _ _ _ _ _ E0) as K0.
    assert (S2: sok D (set_ign s0 true)) by (eapply sok_ctx in K0; [exact K0|exact S1]).
    destruct (rstat r0); [destruct found| |]; try apply T_ret; apply (CONT _ _ (fun x => set_ign x (ign s)) S2).
  - destruct (children v) as [vs|] eqn:C; [|apply T_ret].
    destruct (Htot (RAny next vs found one (S f') l true (lax s)) s) as [r [s1 E]].
    + left. eapply children_ok; eauto.
    + exact Ss.
    + cbn [m]. pose proof (children_ok _ _ C V). destruct (lax s); nia.
    + rewrite E. cbn [bindo]. apply T_ret.
Qed.

Lemma filter_t p next v found (u:bool) s :
  jdepth v <= D -> sok D s -> S (sz_pred p + sz next) * K + (if u then D + 3 else 0) <= B ->
  T (execFilter self p next v found u s).
Proof.
  intros V Ss M. unfold execFilter. pose proof (eq_refl K) as HK. unfold Fuel.K in HK at 2.
  assert (ONE: T (do (r0, s1) <- self (RBool p v) (set_cur s v);
      match rpred r0 with
      | PT => executeNextItem self next v found (set_cur s1 (cur s))
      | _ => match rerr r0 with Some e => Ret (mk Failed (Some e) found, set_cur s1 (cur s)) | None => Ret (mk NotFound None found, set_cur s1 (cur s)) end
      end)).
  { assert (S1: sok D (set_cur s v)) by (destruct Ss; split; assumption).
    destruct (Htot (RBool p v) (set_cur s v)) as [rb [sb E]]; [exact V|exact S1|cbn [m]; destruct u; nia|].
    rewrite E. cbn [bindo]. pose proof (Hfr _ _ _ _ E) as Kb.
    assert (S2: sok D (set_cur sb (cur s))).
    { apply restore_cur in Kb. eapply sok_ctx; eauto. }
    destruct (rpred rb); [apply next_t; [exact V|exact S2|destruct u; nia]| |]; destruct (rerr rb); apply T_ret. }
  destruct v as [|z|l|l]; try exact ONE.
  destruct u; [|exact ONE].
  rewrite jdepth_arr in V.
  apply Htot; [left; lia|exact Ss|]. cbn [m sz sz_step]. nia.
Qed.

Lemma item_t n v found (u:bool) s :
  jdepth v <= D -> sok D s -> sz n * K + (if u then D + 3 else 0) <= B -> T (execItem self n v found u s).
Proof.
  intros V Ss M. unfold execItem. pose proof (eq_refl K) as HK. unfold Fuel.K in HK at 2.
  destruct (done_now s); [apply T_ret|].
  assert (St: sok D (tick s)) by exact Ss. destruct Ss as [Sr Sc].
  destruct n as [|x next]; [apply T_ret|]. cbn [sz] in M.
  destruct x as [| |k| |f l|p|z]; cbn [sz_step] in M.
  - apply next_t; [exact Sr|exact St|destruct u; nia].
  - apply next_t; [exact Sc|exact St|destruct u; nia].
  - apply key_t; [exact V|exact St|destruct u; nia].
  - apply anyarr_t; [exact V|exact St|destruct u; nia].
  - apply any_t; [exact V|exact St|destruct u; nia].
  - apply filter_t; [exact V|exact St|destruct u; nia].
  - destruct next as [|y next']; [destruct found; [apply next_t; [cbn; lia|exact St|cbn; destruct u; nia]|apply T_ret]|].
    apply next_t; [cbn; lia|exact St|destruct u; nia].
Qed.

Definition TF (s:st) (x:outcome (resp*st)) : Prop := exists r s', x = Ret (r, s') /\ ign_free s s'.

Lemma anyloop_t n found level first last ignp (un:bool) saved : forall vs res s,
  (maxd vs < D \/ vs = []) -> sok D s ->
  sz n * K + (if un then D + 4 else 1) + maxd vs <= B ->
  TF s (anyLoop self n vs found level first last ignp un res s saved).
Proof.
  pose proof (eq_refl K) as HK. unfold Fuel.K in HK at 2.
  induction vs as [|v rest IH]; intros res s V Ss M.
  - exists res, s. split; [reflexivity|repeat split].
  - assert (Vv: jdepth v < D /\ (maxd rest < D \/ rest = [])).
    { destruct V as [V|V]; [|discriminate]. cbn [maxd] in V. split; [lia|left; lia]. }
    destruct Vv as [Vv Vr]. cbn [maxd] in M.
    rewrite anyLoop_cons.
    assert (A: TF s (stepA self n v found level first ignp un res s)).
    { unfold stepA. destruct (first <=? level)%nat; [|exists res, s; split; [reflexivity|repeat split]].
      destruct n as [|x n']; [destruct found; eexists; eexists; (split; [reflexivity|repeat split])|].
      assert (S1: sok D (if ignp then set_ign s true else s)) by (destruct ignp; exact Ss).
      destruct (Htot (RItem (x :: n') v (rfound res) un) (if ignp then set_ign s true else s)) as [r1 [s1 E]].
      - cbn [vok]. lia.
      - exact S1.
      - cbn [m]. destruct un; nia.
      - exists r1, s1. split; [exact E|]. pose proof (Hfr _ _ _ _ E) as Kc.
        destruct ignp; revert Kc; unfold ctx_eq, ign_free; cbn; intuition congruence. }
    destruct A as [r1 [s1 [EA FA]]]. rewrite EA. cbn [bindo].
    assert (S1: sok D s1) by (revert FA Ss; unfold ign_free, sok; intuition congruence).
    destruct (exitb found r1); [exists r1, s1; split; [reflexivity|exact FA]|].
    assert (Bx: TF s1 (stepB self n v level first last ignp un r1 s1)).
    { unfold stepB. destruct (level <? last)%nat; [|exists r1, s1; split; [reflexivity|repeat split]].
      destruct (children v) as [cs|] eqn:C; [|eexists; eexists; split; [reflexivity|repeat split]].
      pose proof (children_depth _ _ C) as CD.
      destruct (Htot (RAny n cs (rfound r1) (S level) first last ignp un) s1) as [r2 [s2 E]].
      - left. lia.
      - exact S1.
      - cbn [m]. destruct un; nia.
      - exists r2, s2. split; [exact E|]. pose proof (Hfr _ _ _ _ E) as Kc. revert Kc; unfold ctx_eq, ign_free; intuition congruence. }
    destruct Bx as [r2 [s2 [EB FB]]]. rewrite EB. cbn [bindo].
    assert (S2: sok D s2) by (revert FB S1; unfold ign_free, sok; intuition congruence).
    assert (F02: ign_free s s2) by (revert FA FB; unfold ign_free; intuition congruence).
    destruct (exitb found r2); [exists r2, s2; split; [reflexivity|exact F02]|].
    destruct (IH (mk (rstat r2) (rerr r2) (rfound r2)) s2 Vr S2) as [r [s' [E F]]]; [nia|].
    exists r, s'. split; [exact E|]. revert F02 F; unfold ign_free; intuition congruence.
Qed.

Lemma anyitem_t n vs found level first last ignp (un:bool) s :
  (maxd vs < D \/ vs = []) -> sok D s -> sz n * K + (if un then D + 4 else 1) + maxd vs <= B ->
  T (execAnyItem self n vs found level first last ignp un s).
Proof.
  intros V Ss M. unfold execAnyItem. destruct (last <? level)%nat; [apply T_ret|].
  destruct (anyloop_t n found level first last ignp un (ign s) vs (mk NotFound None found) s V Ss M) as [r [s' [E _]]].
  rewrite E. cbn [bindo].
  destruct (rstat r); destruct (rerr r); try apply T_ret;
    match goal with |- context[if ?c then _ else _] => destruct c end; apply T_ret.
Qed.

Lemma operand_t e v (u:bool) found s :
  jdepth v <= D -> sok D s -> sz e * K + D + 3 < B -> T (operand self e v u found s).
Proof.
  intros V Ss M. unfold operand. pose proof (eq_refl K) as HK. unfold Fuel.K in HK at 2.
  assert (S0: sok D (set_verbose s false)) by exact Ss.
  destruct (u && lax s)%bool.
  - destruct (Htot (RItem e v (Some []) (lax (set_verbose s false))) (set_verbose s false)) as [r [s1 E]];
      [exact V|exact S0|cbn [m]; destruct (lax (set_verbose s false)); nia|].
    rewrite E. cbn [bindo]. destruct (rstat r); cbn [bindo]; apply T_ret.
  - destruct (Htot (RItem e v found (lax (set_verbose s false))) (set_verbose s false)) as [r [s1 E]];
      [exact V|exact S0|cbn [m]; destruct (lax (set_verbose s false)); nia|].
    rewrite E. cbn [bindo]. apply T_ret.
Qed.

Lemma sz_pred_exists e : sz_pred (PExists e) = S (sz e). Proof. reflexivity. Qed.
Lemma sz_pred_eq l r : sz_pred (PEq l r) = S (sz l + sz r). Proof. reflexivity. Qed.

Lemma bool_t p v s : jdepth v <= D -> sok D s -> sz_pred p * K <= B -> T (execBool self p v s).
Proof.
  intros V Ss M. unfold execBool. pose proof (eq_refl K) as HK. unfold Fuel.K in HK at 2.
  destruct p as [e|el er|a b|a|a].
  - rewrite sz_pred_exists in M.
    destruct (lax s).
    + destruct (operand_t e v false None s V Ss ltac:(nia)) as [r [s1 E]]. rewrite E. cbn [bindo]. destruct (rstat r); apply T_ret.
    + destruct (operand_t e v false (Some []) s V Ss ltac:(nia)) as [r [s1 E]]. rewrite E. cbn [bindo].
      destruct (rstat r); try apply T_ret; destruct (rfound r) as [[|]|]; apply T_ret.
  - rewrite sz_pred_eq in M.
    destruct (operand_t el v true (Some []) s V Ss ltac:(nia)) as [rl [sl E]]. rewrite E. cbn [bindo].
    pose proof (frame_operand _ Hfr _ _ _ _ _ _ _ E) as Kl.
    assert (S1: sok D sl) by (eapply sok_ctx; eauto).
    assert (CONT: T (do (rr, s2) <- operand self er v true (Some []) sl;
                   match rstat rr with
                   | Failed => Ret (mkp PU (rerr rr), s2)
                   | _ => Ret (mkp (pairs (negb (lax s2)) (match rfound rl with Some x => x | None => [] end)
                                      (match rfound rr with Some x => x | None => [] end) false false) None, s2) end)).
    { destruct (operand_t er v true (Some []) sl V S1 ltac:(nia)) as [rr [sr E2]]. rewrite E2. cbn [bindo].
      destruct (rstat rr); apply T_ret. }
    destruct (rstat rl); try apply T_ret; exact CONT.
  - cbn [sz_pred] in M.
    destruct (Htot (RBool a v) s) as [ra [sa E]]; [exact V|exact Ss|cbn [m]; nia|]. rewrite E. cbn [bindo].
    pose proof (Hfr _ _ _ _ E) as Ka. assert (S1: sok D sa) by (eapply sok_ctx; eauto).
    assert (CONT: T (do (r2, s2) <- self (RBool b v) sa;
                 match rpred r2 with PT => Ret (mkp (rpred ra) (rerr r2), s2) | _ => Ret (r2, s2) end)).
    { destruct (Htot (RBool b v) sa) as [rb [sb E2]]; [exact V|exact S1|cbn [m]; nia|]. rewrite E2. cbn [bindo].
      destruct (rpred rb); apply T_ret. }
    destruct (rpred ra); destruct (rerr ra); try apply T_ret; exact CONT.
  - cbn [sz_pred] in M.
    destruct (Htot (RBool a v) s) as [ra [sa E]]; [exact V|exact Ss|cbn [m]; nia|]. rewrite E. cbn [bindo].
    destruct (rpred ra); apply T_ret.
  - cbn [sz_pred] in M.
    destruct (Htot (RBool a v) s) as [ra [sa E]]; [exact V|exact Ss|cbn [m]; nia|]. rewrite E. cbn [bindo].
    destruct (rerr ra); apply T_ret.
Qed.

Theorem total_body : total_below D (body self) (S B).
Proof.
  intros q s V Ss M. destruct q as [n v found u|n vs found level first last ignp un|p v]; cbn [body m vok] in *.
  - apply item_t; [exact V|exact Ss|lia].
  - apply anyitem_t; [exact V|exact Ss|lia].
  - apply bool_t; [exact V|exact Ss|lia].
Qed.
End Body.

Theorem total_run D : forall fuel, total_below D (run fuel) fuel.
Proof.
  induction fuel as [|f IH]; [intros q s _ _ M; lia|].
  cbn [run]. apply total_body; [apply frame_run|exact IH].
Qed.

(* Public statement: with the stated fuel a query never runs out of fuel, i.e. the executor terminates *)
Corollary query_terminates rt laxm vb found k n :
  let D := jdepth rt in
  exists r s', run (S (sz n * (2 * D + 6) + D + 3)) (RItem n rt found laxm)
                {| root:=rt; cur:=rt; ign:=laxm; verbose:=vb; lax:=laxm; polls:=0; cancel_at:=k |} = Ret (r, s').
Proof.
  intro D. apply (total_run D).
  - cbn [vok]. fold D. lia.
  - split; cbn [root cur]; fold D; lia.
  - cbn [m]. unfold K. destruct laxm; nia.
Qed.
Print Assumptions query_terminates.
