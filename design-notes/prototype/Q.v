From Coq Require Import List NArith ZArith Lia Bool.
From Coq Require Import ZifyN ZifyBool.
Import ListNotations.
Open Scope N_scope.
Ltac Zify.zify_post_hook ::= Z.div_mod_to_equations.

Definition rune := N.
(* ASCII constants *)
Definition cQ := 34. Definition cBS := 92. Definition cNL := 10.
Definition c_a := 97. Definition c_b := 98. Definition c_f := 102. Definition c_n := 110. Definition c_r := 114.
Definition c_t := 116. Definition c_v := 118. Definition c_x := 120. Definition c_u := 117. Definition c_U := 85.
Definition cLB := 123. Definition cRB := 125.

Definition lowerhex (d:N) : rune := if d <? 10 then 48 + d else 87 + d.   (* digit or lower-case letter *)
Definition hexChar (c:rune) : option N :=
  if (48 <=? c) && (c <=? 57) then Some (c - 48)
  else if (97 <=? c) && (c <=? 102) then Some (c - 87)
  else if (65 <=? c) && (c <=? 70) then Some (c - 55)
  else None.

Section Quote.
Variable is_print : rune -> bool.

(* strconv.appendEscapedRune for valid runes, quote = double quote *)
Definition quote_rune (r:rune) : list rune :=
  if (r =? cQ) || (r =? cBS) then [cBS; r]
  else if is_print r then [r]
  else if r =? 7 then [cBS; c_a]
  else if r =? 8 then [cBS; c_b]
  else if r =? 12 then [cBS; c_f]
  else if r =? 10 then [cBS; c_n]
  else if r =? 13 then [cBS; c_r]
  else if r =? 9 then [cBS; c_t]
  else if r =? 11 then [cBS; c_v]
  else if (r <? 32) || (r =? 127) then [cBS; c_x; lowerhex (r / 16); lowerhex (r mod 16)]
  else if r <? 65536 then [cBS; c_u; lowerhex (r / 4096 mod 16); lowerhex (r / 256 mod 16); lowerhex (r / 16 mod 16); lowerhex (r mod 16)]
  else [cBS; c_U; lowerhex (r / 268435456 mod 16); lowerhex (r / 16777216 mod 16); lowerhex (r / 1048576 mod 16); lowerhex (r / 65536 mod 16);
        lowerhex (r / 4096 mod 16); lowerhex (r / 256 mod 16); lowerhex (r / 16 mod 16); lowerhex (r mod 16)].
Definition quote_body (s:list rune) : list rune := flat_map quote_rune s.
End Quote.

(* lex.go: scanString / scanEscape / scanHex / scanUnicode / decodeUnicode, on the runes after the opening quote *)
Definition is_surrogate (r:N) := (55296 <=? r) && (r <? 57344).

Definition scan_hex2 (inp:list rune) : option (rune * list rune) :=
  match inp with
  | c1 :: c2 :: rest =>
      match hexChar c1, hexChar c2 with
      | Some d1, Some d2 => let r := d1 * 16 + d2 in if 0 <? r then Some (r, rest) else None
      | _, _ => None end
  | _ => None end.

Fixpoint braces (n:nat) (acc:N) (inp:list rune) : option (rune * list rune) :=   (* after the opening brace: up to 6 hex digits then the closing brace *)
  match inp with
  | c :: rest =>
      if c =? cRB then Some (acc, rest) else
      match n with
      | O => None
      | S n' => match hexChar c with Some d => braces n' (acc * 16 + d) rest | None => None end
      end
  | [] => None end.

Definition decode_unicode (inp:list rune) : option (rune * list rune) :=
  match inp with
  | c :: rest =>
      if c =? cLB then
        match braces 6 0 rest with Some (r, rest') => if r =? 0 then None else Some (r, rest') | None => None end
      else
        match rest with
        | c2 :: c3 :: c4 :: rest' =>
            match hexChar c, hexChar c2, hexChar c3, hexChar c4 with
            | Some d1, Some d2, Some d3, Some d4 =>
                let r := ((d1 * 16 + d2) * 16 + d3) * 16 + d4 in if r =? 0 then None else Some (r, rest')
            | _, _, _, _ => None end
        | _ => None end
  | [] => None end.

Definition scan_escape (inp:list rune) : option (rune * list rune) :=   (* after the backslash *)
  match inp with
  | [] => None
  | c :: rest =>
      if c =? c_b then Some (8, rest) else if c =? c_f then Some (12, rest) else if c =? c_n then Some (10, rest)
      else if c =? c_r then Some (13, rest) else if c =? c_t then Some (9, rest) else if c =? c_v then Some (11, rest)
      else if c =? c_x then scan_hex2 rest
      else if c =? c_u then
        match decode_unicode rest with
        | Some (r, rest') => if is_surrogate r then None (* pairs: not needed for printer output *) else Some (r, rest')
        | None => None end
      else if c =? 0 then None
      else Some (c, rest)           (* everything else is literal *)
  end.

Fixpoint scan_string (fuel:nat) (inp:list rune) : option (list rune * list rune) :=
  match fuel with O => None | S f =>
    match inp with
    | [] => None
    | c :: rest =>
        if c =? cQ then Some ([], rest)
        else if (c =? cNL) || (c =? 0) then None
        else if c =? cBS then
          match scan_escape rest with
          | Some (r, rest') => match scan_string f rest' with Some (s, tl) => Some (r :: s, tl) | None => None end
          | None => None end
        else match scan_string f rest with Some (s, tl) => Some (c :: s, tl) | None => None end
    end end.

(* ---------- round trip ---------- *)
Section RT.
Variable is_print : rune -> bool.
Hypothesis print_nl : is_print 10 = false.
Hypothesis print_0 : is_print 0 = false.

(* runes the lexer can read back from strconv.Quote's output *)
Definition readable (r:rune) : bool :=
  (0 <? r) && (r <? 1114112) && negb (is_surrogate r) &&
  (is_print r || (negb (r =? 7) && (r <? 65536))).

Lemma hex_low d : d < 16 -> hexChar (lowerhex d) = Some d.
Proof.
  intro H. unfold hexChar, lowerhex. destruct (d <? 10) eqn:C.
  - replace ((48 <=? 48 + d) && (48 + d <=? 57)) with true by lia. f_equal. lia.
  - replace ((48 <=? 87 + d) && (87 + d <=? 57)) with false by lia.
    replace ((97 <=? 87 + d) && (87 + d <=? 102)) with true by lia. f_equal. lia.
Qed.

Lemma scan_bs f rest : scan_string (S f) (cBS :: rest) =
  match scan_escape rest with
  | Some (r, rest') => match scan_string f rest' with Some (s, tl) => Some (r :: s, tl) | None => None end
  | None => None end.
Proof. reflexivity. Qed.
Lemma esc_x rest : scan_escape (c_x :: rest) = scan_hex2 rest. Proof. reflexivity. Qed.
Lemma esc_u rest : scan_escape (c_u :: rest) =
  match decode_unicode rest with
  | Some (r, rest') => if is_surrogate r then None else Some (r, rest')
  | None => None end.
Proof. reflexivity. Qed.

Lemma lowerhex_not_lb d : d < 16 -> (lowerhex d =? cLB) = false.
Proof. unfold lowerhex, cLB. destruct (d <? 10) eqn:C; lia. Qed.

Lemma step_rune r rest fuel s tl :
  readable r = true ->
  scan_string fuel rest = Some (s, tl) ->
  scan_string (S fuel) (quote_rune is_print r ++ rest) = Some (r :: s, tl).
Proof.
  unfold readable. intros R H.
  apply andb_prop in R as [R R4]. apply andb_prop in R as [R R3]. apply andb_prop in R as [R1 R2].
  unfold quote_rune.
  destruct ((r =? cQ) || (r =? cBS)) eqn:C1.
  { cbn [app]. rewrite scan_bs. unfold cQ, cBS in C1.
    assert (r = 34 \/ r = 92) as [E|E] by lia; subst r; cbn; rewrite H; reflexivity. }
  destruct (is_print r) eqn:C2.
  { cbn [app scan_string].
    assert (r <> 10) by (intro; subst; congruence).
    unfold cQ, cBS, cNL in *.
    replace (r =? 34) with false by lia. replace ((r =? 10) || (r =? 0)) with false by lia.
    replace (r =? 92) with false by lia. rewrite H. reflexivity. }
  cbn [orb] in R4. apply andb_prop in R4 as [R5 R6].
  assert (N7: (r =? 7) = false) by (destruct (r =? 7); [discriminate|reflexivity]). rewrite N7.
  destruct (r =? 8) eqn:E8; [assert (r = 8) by lia; subst; cbn [app]; rewrite scan_bs; cbn; rewrite H; reflexivity|].
  destruct (r =? 12) eqn:E12; [assert (r = 12) by lia; subst; cbn [app]; rewrite scan_bs; cbn; rewrite H; reflexivity|].
  destruct (r =? 10) eqn:E10; [assert (r = 10) by lia; subst; cbn [app]; rewrite scan_bs; cbn; rewrite H; reflexivity|].
  destruct (r =? 13) eqn:E13; [assert (r = 13) by lia; subst; cbn [app]; rewrite scan_bs; cbn; rewrite H; reflexivity|].
  destruct (r =? 9) eqn:E9; [assert (r = 9) by lia; subst; cbn [app]; rewrite scan_bs; cbn; rewrite H; reflexivity|].
  destruct (r =? 11) eqn:E11; [assert (r = 11) by lia; subst; cbn [app]; rewrite scan_bs; cbn; rewrite H; reflexivity|].
  destruct ((r <? 32) || (r =? 127)) eqn:CX.
  { cbn [app]. rewrite scan_bs, esc_x. unfold scan_hex2.
    assert (r < 256) by lia.
    rewrite !hex_low by lia.
    replace (0 <? r / 16 * 16 + r mod 16) with true by lia.
    replace (r / 16 * 16 + r mod 16) with r by lia. rewrite H. reflexivity. }
  rewrite R6.
  cbn [app]. rewrite scan_bs, esc_u. unfold decode_unicode.
  rewrite lowerhex_not_lb by lia.
  rewrite !hex_low by lia.
  assert (RR: ((r / 4096 mod 16 * 16 + r / 256 mod 16) * 16 + r / 16 mod 16) * 16 + r mod 16 = r) by lia.
  rewrite RR. replace (r =? 0) with false by lia.
  apply negb_true_iff in R3. rewrite R3. rewrite H. reflexivity.
Qed.

Lemma scan_mono fuel : forall inp s tl, scan_string fuel inp = Some (s, tl) -> scan_string (S fuel) inp = Some (s, tl).
Proof.
  induction fuel as [|f IH]; intros inp s tl H; [discriminate|].
  cbn [scan_string] in H. change (scan_string (S (S f)) inp) with
    (match inp with [] => None | c :: rest =>
       if c =? cQ then Some ([], rest) else if (c =? cNL) || (c =? 0) then None
       else if c =? cBS then match scan_escape rest with
            | Some (r, rest') => match scan_string (S f) rest' with Some (s, tl) => Some (r :: s, tl) | None => None end | None => None end
       else match scan_string (S f) rest with Some (s, tl) => Some (c :: s, tl) | None => None end end).
  destruct inp as [|c rest]; [discriminate|].
  destruct (c =? cQ); [exact H|]. destruct ((c =? cNL) || (c =? 0)); [discriminate|].
  destruct (c =? cBS).
  - destruct (scan_escape rest) as [[r rest']|]; [|discriminate].
    destruct (scan_string f rest') as [[s' tl']|] eqn:E; [|discriminate]. rewrite (IH _ _ _ E). exact H.
  - destruct (scan_string f rest) as [[s' tl']|] eqn:E; [|discriminate]. rewrite (IH _ _ _ E). exact H.
Qed.

(* the printer's quoted string is read back by the lexer, whatever follows the closing quote *)
Theorem quote_scan_roundtrip s rest :
  forallb readable s = true ->
  exists fuel, scan_string fuel (quote_body is_print s ++ cQ :: rest) = Some (s, rest).
Proof.
  induction s as [|r s IH]; intro R.
  - exists 1%nat. reflexivity.
  - cbn [forallb] in R. apply andb_prop in R as [Rr Rs]. destruct (IH Rs) as [fuel H].
    exists (S fuel). cbn [quote_body flat_map]. rewrite <- app_assoc.
    apply step_rune; assumption.
Qed.
End RT.

(* the two classes strconv.Quote emits that the lexer cannot read back (defect 3) *)
Example bell_is_not_read_back : scan_string 10 (quote_body (fun _ => false) [7] ++ [cQ]) = Some ([c_a], []).
Proof. reflexivity. Qed.
Example astral_is_not_read_back :
  scan_string 20 (quote_body (fun _ => false) [917505] ++ [cQ]) <> Some ([917505], []).
Proof. vm_compute. discriminate. Qed.
Print Assumptions quote_scan_roundtrip.
