From Coq Require Import ZArith NArith Lia Bool.
Open Scope Z_scope.
Ltac Zify.zify_post_hook ::= Z.div_mod_to_equations.

Definition days_from_civil (y m d:Z) : Z :=
  let y' := if m <=? 2 then y - 1 else y in
  let era := y' / 400 in
  let yoe := y' - era * 400 in
  let mp := (m + 9) mod 12 in
  let doy := (153 * mp + 2) / 5 + d - 1 in
  let doe := yoe * 365 + yoe / 4 - yoe / 100 + doy in
  era * 146097 + doe - 719468.

Definition civil_from_days (z:Z) : Z * Z * Z :=
  let z := z + 719468 in
  let era := z / 146097 in
  let doe := z - era * 146097 in
  let yoe := (doe - doe / 1460 + doe / 36524 - doe / 146096) / 365 in
  let y := yoe + era * 400 in
  let doy := doe - (365 * yoe + yoe / 4 - yoe / 100) in
  let mp := (5 * doy + 2) / 153 in
  let d := doy - (153 * mp + 2) / 5 + 1 in
  let m := if mp <? 10 then mp + 3 else mp - 9 in
  (if m <=? 2 then y + 1 else y, m, d).

Lemma dfc_shift y m d : days_from_civil (y + 400) m d = days_from_civil y m d + 146097.
Proof.
  unfold days_from_civil.
  replace (if m <=? 2 then y + 400 - 1 else y + 400) with ((if m <=? 2 then y - 1 else y) + 1 * 400) by (destruct (m <=? 2); lia).
  rewrite Z.div_add by lia. set (y' := if m <=? 2 then y - 1 else y).
  replace (y' + 1 * 400 - (y' / 400 + 1) * 400) with (y' - y' / 400 * 400) by lia. lia.
Qed.

Lemma cfd_shift z : civil_from_days (z + 146097) = let '(y, m, d) := civil_from_days z in (y + 400, m, d).
Proof.
  unfold civil_from_days.
  replace (z + 146097 + 719468) with (z + 719468 + 1 * 146097) by lia.
  rewrite Z.div_add by lia. set (w := z + 719468).
  replace (w + 1 * 146097 - (w / 146097 + 1) * 146097) with (w - w / 146097 * 146097) by lia.
  set (doe := w - w / 146097 * 146097).
  cbv zeta.
  destruct ((if (5 * (doe - (365 * ((doe - doe / 1460 + doe / 36524 - doe / 146096) / 365) + (doe - doe / 1460 + doe / 36524 - doe / 146096) / 365 / 4 - (doe - doe / 1460 + doe / 36524 - doe / 146096) / 365 / 100)) + 2) / 153 <? 10 then _ else _) <=? 2); f_equal; f_equal; lia.
Qed.
Print Assumptions cfd_shift.
