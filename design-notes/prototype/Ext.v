From Coq Require Import List ZArith String Extraction ExtrOcamlBasic ExtrOcamlString.
Require Import Mini Spec.
Definition query (fuel:nat) (laxm:bool) (n:list step) (doc:json) :=
  run fuel (RItem n doc (Some nil) laxm) {| root:=doc; cur:=doc; ign:=laxm; verbose:=true; lax:=laxm |}.
Definition spec (laxm:bool) (n:list step) (doc:json) := sem_chain doc laxm n doc laxm laxm doc.
Extraction "model.ml" query spec.
