open Model
let rec mkdoc d w = if d = 0 then JInt (Zpos XH) else
  JArr (List.init w (fun i -> if i mod 2 = 0 then JObj [ (['a'], mkdoc (d-1) w); (['b'], JInt Z0) ] else mkdoc (d-1) w))
let rec nat_of_int n = if n = 0 then O else S (nat_of_int (n-1))
let () =
  let doc = mkdoc 3 4 in
  let p = [SRoot; SAny (O, nat_of_int 9); SFilter (PAnd (PExists [SCur; SKey ['a']], PNot (PEq ([SCur; SKey ['b']], [SLit (Zpos XH)])))); SKey ['a']] in
  let fuel = nat_of_int 200 in
  let t0 = Unix.gettimeofday () in
  let n = 20000 in
  let cnt = ref 0 in
  for _ = 1 to n do
    (match query fuel true p doc with Ret (r, _) -> (match r.rfound with Some l -> cnt := !cnt + List.length l | None -> ()) | OutOfFuel -> cnt := -1);
    (let (a, _) = spec true p doc in cnt := !cnt + List.length a)
  done;
  Printf.printf "%d queries+specs in %.2fs, items %d\n" n (Unix.gettimeofday () -. t0) !cnt
