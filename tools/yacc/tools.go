//go:build tools

// Package tools pins golang.org/x/tools/cmd/goyacc (from the module cache, offline) so that
// bin/yacccheck.py can regenerate path/parser/grammar.go from grammar.y.
package tools

import _ "golang.org/x/tools/cmd/goyacc"
