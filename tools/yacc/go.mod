module yacc

go 1.23.0

require golang.org/x/tools v0.29.0
