// effects: the effect inventory of github.com/theory/sqljson/path/... (property C19).
//
//	effects -repo /repo -out /verif/coq/gen/Effects.v [-txt build/effects.txt]
//
// Loads path, path/exec, path/ast, path/parser, path/types from the repository's CURRENT
// working tree, builds SSA, a CHA call graph refined by VTA (CHA alone resolves every
// call of a func() value to every func() of the program, which would make the parser's
// closures "reachable" from Query), and for every function of the module reachable from
// the entry points emits one line per EFFECT:
//
//	store      a Store / MapUpdate / append / copy / delete / clear whose target derives from
//	           global | ast-write-at-exec | parse-time | input | percall | local | types-value | unknown:<type>
//	globalread a use of a package-level variable, classified
//	           immutable:error-sentinel | immutable:stringer-table | immutable:parser-table |
//	           immutable:other | immutable:stdlib | mutable | stdlib-unknown
//	           ("immutable" = this tool found no store to it, nor an escape of its address,
//	           outside package initialisation, in ANY function of the five packages)
//	sync       sync.*, sync/atomic, go statements, channel operations (class ctx-done for
//	           select/receive on ctx.Done(), anything else class sync)
//	nondet     time.Now & co, math/rand, crypto/rand, os, unsafe, reflect, runtime, and range over
//	           a map (iteration order)
//
// Output: Effects.v defining effects : list (string * string * string * string), sorted,
// written only when changed.  The tool fails loudly when packages do not load, when an entry
// point is missing or when it meets an SSA shape it does not understand.
package main

import (
	"flag"
	"fmt"
	"go/token"
	"go/types"
	"os"
	"path/filepath"
	"sort"
	"strings"

	"golang.org/x/tools/go/callgraph"
	"golang.org/x/tools/go/callgraph/cha"
	"golang.org/x/tools/go/callgraph/vta"
	"golang.org/x/tools/go/packages"
	"golang.org/x/tools/go/ssa"
	"golang.org/x/tools/go/ssa/ssautil"
)

const mod = "github.com/theory/sqljson"

var modPkgs = []string{mod + "/path", mod + "/path/exec", mod + "/path/ast", mod + "/path/parser", mod + "/path/types"}

func die(format string, args ...any) {
	fmt.Fprintf(os.Stderr, "effects: FATAL: "+format+"\n", args...)
	os.Exit(1)
}

// ---------------------------------------------------------------------------
// entry points
// ---------------------------------------------------------------------------

type entry struct {
	pkg, recv, name string
	group           string // "exec" or "parse"
}

var entries = []entry{
	{"path/exec", "", "Query", "exec"}, {"path/exec", "", "First", "exec"},
	{"path/exec", "", "Exists", "exec"}, {"path/exec", "", "Match", "exec"},
	{"path", "Path", "Query", "exec"}, {"path", "Path", "First", "exec"},
	{"path", "Path", "Exists", "exec"}, {"path", "Path", "Match", "exec"},
	{"path", "Path", "ExistsOrMatch", "exec"}, {"path", "Path", "String", "exec"},
	{"path", "Path", "MustQuery", "exec"}, {"path", "Path", "MarshalText", "exec"},
	{"path", "Path", "MarshalBinary", "exec"}, {"path", "Path", "Value", "exec"},
	{"path", "Path", "PgIndexOperator", "exec"}, {"path", "Path", "IsPredicate", "exec"},
	{"path/ast", "AST", "String", "exec"},
	{"path/parser", "", "Parse", "parse"}, {"path", "", "Parse", "parse"}, {"path", "", "MustParse", "parse"},
	{"path", "Path", "Scan", "parse"}, {"path", "Path", "UnmarshalText", "parse"},
	{"path", "Path", "UnmarshalBinary", "parse"},
}

// ---------------------------------------------------------------------------
// analysis state
// ---------------------------------------------------------------------------

type analyzer struct {
	prog     *ssa.Program
	modFuncs []*ssa.Function                      // every function of the five packages (incl. closures, instantiations)
	storesTo map[*ssa.Alloc][]ssa.Value           // values stored (anywhere) into a local cell
	closures map[*ssa.Function][]*ssa.MakeClosure // closure creation sites
	fset     *token.FileSet
	cg       *callgraph.Graph
	notOwned map[fieldKey]string // fields of per-call structs that (may) hold shared memory
}

// fieldKey names a field of a per-call struct (exec.Executor, exec.valueList, parser.lexer, ...).
type fieldKey struct {
	st    string
	field int
}

func fieldOf(fa *ssa.FieldAddr) (fieldKey, *types.Var, bool) {
	st := fa.X.Type().Underlying().(*types.Pointer).Elem()
	if typeClass(st, 0) != "percall" {
		return fieldKey{}, nil, false
	}
	return fieldKey{types.TypeString(st, nil), fa.Field}, st.Underlying().(*types.Struct).Field(fa.Field), true
}

func inModule(f *ssa.Function) bool {
	p := fnPkg(f)
	return p != nil && strings.HasPrefix(p.Path(), mod+"/path")
}

func fnPkg(f *ssa.Function) *types.Package {
	for g := f; g != nil; g = g.Parent() {
		if g.Pkg != nil {
			return g.Pkg.Pkg
		}
		if o := g.Origin(); o != nil && o.Pkg != nil {
			return o.Pkg.Pkg
		}
		if g.Object() != nil && g.Object().Pkg() != nil {
			return g.Object().Pkg()
		}
	}
	return nil
}

func isInit(f *ssa.Function) bool {
	for g := f; g != nil; g = g.Parent() {
		if g.Name() == "init" || strings.HasPrefix(g.Name(), "init#") {
			if g.Signature.Recv() == nil {
				return true
			}
		}
	}
	return false
}

// root of an address / pointer-like value
type root struct {
	kind string // global | local | owned | typed
	g    *ssa.Global
	how  string     // for typed roots: param | call | load | freevar | range | other
	typ  types.Type // static type of the root value
	name string
}

type walk struct {
	a       *analyzer
	inter   int // interprocedural steps taken
	seen    map[ssa.Value]bool
	structs []types.Type // struct types whose fields are addressed between the store and the root
	roots   []root
}

func (a *analyzer) rootsOf(v ssa.Value) ([]root, []types.Type) {
	w := &walk{a: a, seen: map[ssa.Value]bool{}}
	w.visit(v)
	return w.roots, w.structs
}

func (w *walk) add(r root) { w.roots = append(w.roots, r) }

func pointerLike(t types.Type) bool {
	switch u := t.Underlying().(type) {
	case *types.Pointer, *types.Slice, *types.Map, *types.Chan, *types.Interface, *types.Signature:
		return true
	case *types.Struct:
		for i := 0; i < u.NumFields(); i++ {
			if pointerLike(u.Field(i).Type()) {
				return true
			}
		}
	case *types.Array:
		return pointerLike(u.Elem())
	case *types.Tuple:
		for i := 0; i < u.Len(); i++ {
			if pointerLike(u.At(i).Type()) {
				return true
			}
		}
	}
	return false
}

// addrBase strips FieldAddr/IndexAddr (address arithmetic inside one object) and resolves
// free variables to the cell they are bound to.
func (a *analyzer) addrBase(v ssa.Value) ssa.Value {
	for i := 0; i < 1000; i++ {
		switch x := v.(type) {
		case *ssa.FieldAddr:
			v = x.X
		case *ssa.IndexAddr:
			// IndexAddr on a slice value is a dereference of the slice, not of a cell
			if _, isPtr := x.X.Type().Underlying().(*types.Pointer); !isPtr {
				return v
			}
			v = x.X
		case *ssa.FreeVar:
			b := a.binding(x)
			if b == nil {
				return v
			}
			v = b
		default:
			return v
		}
	}
	return v
}

func (a *analyzer) binding(fv *ssa.FreeVar) ssa.Value {
	fn := fv.Parent()
	idx := -1
	for i, f := range fn.FreeVars {
		if f == fv {
			idx = i
		}
	}
	if idx < 0 {
		return nil
	}
	sites := a.closures[fn]
	if len(sites) != 1 {
		return nil // zero or several creation sites: stay conservative (typed root)
	}
	return sites[0].Bindings[idx]
}

func (w *walk) visit(v ssa.Value) {
	if w.seen[v] {
		return
	}
	w.seen[v] = true
	switch x := v.(type) {
	case *ssa.Global:
		w.add(root{kind: "global", g: x, name: x.String()})
	case *ssa.Alloc:
		w.add(root{kind: "local", name: "alloc " + x.Type().String()})
	case *ssa.MakeMap, *ssa.MakeSlice, *ssa.MakeChan, *ssa.MakeClosure, *ssa.Const, *ssa.Function, *ssa.Builtin, *ssa.BinOp:
		w.add(root{kind: "local", name: fmt.Sprintf("fresh %s", v.Type())})
	case *ssa.FieldAddr:
		st := x.X.Type().Underlying().(*types.Pointer).Elem()
		w.structs = append(w.structs, st)
		w.visit(x.X)
	case *ssa.IndexAddr:
		w.visit(x.X)
	case *ssa.Field:
		w.visit(x.X)
	case *ssa.Index:
		w.visit(x.X)
	case *ssa.Slice:
		w.visit(x.X)
	case *ssa.Phi:
		for _, e := range x.Edges {
			w.visit(e)
		}
	case *ssa.ChangeType:
		w.visit(x.X)
	case *ssa.Convert:
		w.visit(x.X)
	case *ssa.ChangeInterface:
		w.visit(x.X)
	case *ssa.MakeInterface:
		w.visit(x.X)
	case *ssa.SliceToArrayPointer:
		w.visit(x.X)
	case *ssa.MultiConvert:
		w.visit(x.X)
	case *ssa.TypeAssert:
		// remember the asserted type: it is the most precise view of the object
		if !x.CommaOk {
			w.noteAsserted(x.AssertedType)
		}
		w.visit(x.X)
	case *ssa.Extract:
		if ta, ok := x.Tuple.(*ssa.TypeAssert); ok && x.Index == 0 {
			w.noteAsserted(ta.AssertedType)
			w.visit(ta.X)
			return
		}
		if c, ok := x.Tuple.(*ssa.Call); ok {
			w.callResult(c, x.Type())
			return
		}
		w.add(root{kind: "typed", how: "extract", typ: x.Type(), name: "_"})
	case *ssa.FreeVar:
		if b := w.a.binding(x); b != nil {
			w.visit(b)
			return
		}
		w.add(root{kind: "typed", how: "freevar", typ: x.Type(), name: x.Name()})
	case *ssa.Parameter:
		w.param(x)
	case *ssa.UnOp:
		if x.Op != token.MUL {
			if x.Op == token.ARROW {
				w.add(root{kind: "typed", how: "recv", typ: x.Type(), name: "_"})
				return
			}
			w.add(root{kind: "local", name: "fresh " + x.Type().String()})
			return
		}
		base := w.a.addrBase(x.X)
		switch b := base.(type) {
		case *ssa.Alloc:
			vals := w.a.storesTo[b]
			n := 0
			for _, sv := range vals {
				if pointerLike(sv.Type()) {
					w.visit(sv)
					n++
				}
			}
			if n == 0 {
				w.add(root{kind: "local", name: "zero " + x.Type().String()})
			}
		case *ssa.Global:
			// anything loaded from a global is reachable from that global
			w.add(root{kind: "global", g: b, name: b.String()})
		default:
			// a field of a per-call struct into which only fresh memory (or its own previous
			// contents, as in s.f = append(s.f, x)) is ever stored holds per-call memory
			if fa, ok := x.X.(*ssa.FieldAddr); ok {
				if k, fv, ok := fieldOf(fa); ok {
					if _, shared := w.a.notOwned[k]; !shared {
						w.add(root{kind: "owned", name: short(k.st) + "." + fv.Name(), typ: x.Type()})
						return
					}
				}
			}
			// a pointer loaded from memory that is not a local cell: classify by its static type
			w.add(root{kind: "typed", how: "load", typ: x.Type(), name: "_"})
		}
	case *ssa.Lookup:
		if bs, _ := w.a.rootsOf(x.X); allGlobal(bs) {
			for _, r := range bs {
				w.add(r)
			}
			return
		}
		w.add(root{kind: "typed", how: "load", typ: x.Type(), name: "_"})
	case *ssa.Call:
		if b, ok := x.Call.Value.(*ssa.Builtin); ok && b.Name() == "append" {
			w.visit(x.Call.Args[0]) // the result may share the backing array of the first argument
			return
		}
		w.callResult(x, x.Type())
	case *ssa.Next, *ssa.Range, *ssa.Select:
		w.add(root{kind: "typed", how: "range", typ: v.Type(), name: "_"})
	default:
		die("rootsOf: unhandled SSA value %T (%s) in %s", v, v, v.Parent())
	}
}

// param: a pointer parameter whose type says nothing (e.g. an out-parameter *rune, a []byte
// buffer) of an unexported function all of whose callers are static calls inside the module
// denotes what its callers pass.
func (w *walk) param(p *ssa.Parameter) {
	typed := root{kind: "typed", how: "param", typ: p.Type(), name: p.Name()}
	fn := p.Parent()
	if typeClass(p.Type(), 0) != "other" || w.inter >= 3 || fn.Object() == nil || fn.Object().Exported() || w.a.cg == nil {
		w.add(typed)
		return
	}
	idx := -1
	for i, q := range fn.Params {
		if q == p {
			idx = i
		}
	}
	node := w.a.cg.Nodes[fn]
	if idx < 0 || node == nil || len(node.In) == 0 {
		w.add(typed)
		return
	}
	var args []ssa.Value
	for _, e := range node.In {
		if e.Site == nil || !inModule(e.Caller.Func) || e.Site.Common().StaticCallee() != fn {
			w.add(typed)
			return
		}
		args = append(args, e.Site.Common().Args[idx])
	}
	w.inter++
	for _, a := range args {
		w.visit(a)
	}
	w.inter--
}

// callResult: the result of a static call to a function outside the module whose type says
// nothing can only alias the pointer-like arguments or fresh memory.
func (w *walk) callResult(c *ssa.Call, t types.Type) {
	typed := root{kind: "typed", how: "call", typ: t, name: callName(&c.Call)}
	callee := c.Call.StaticCallee()
	if typeClass(t, 0) != "other" || callee == nil || inModule(callee) {
		w.add(typed)
		return
	}
	n := 0
	for _, a := range c.Call.Args {
		if pointerLike(a.Type()) {
			if _, isFn := a.Type().Underlying().(*types.Signature); isFn {
				continue
			}
			w.visit(a)
			n++
		}
	}
	if n == 0 {
		w.add(root{kind: "local", name: "fresh " + t.String()})
	}
}

func (w *walk) noteAsserted(t types.Type) {
	if p, ok := t.Underlying().(*types.Pointer); ok {
		t = p.Elem()
	}
	if _, ok := t.(*types.Named); ok {
		w.structs = append(w.structs, t)
	}
}

func allGlobal(rs []root) bool {
	if len(rs) == 0 {
		return false
	}
	for _, r := range rs {
		if r.kind != "global" {
			return false
		}
	}
	return true
}

func callName(c *ssa.CallCommon) string {
	if c.IsInvoke() {
		return "invoke " + c.Method.Name()
	}
	if f := c.StaticCallee(); f != nil {
		return short(f.String())
	}
	return "dynamic call"
}

func short(s string) string { return strings.ReplaceAll(s, mod+"/path", "P") }

// typeClass: which kind of object does a value of type t denote?
//
//	ast      a node / tree of path/ast, or path.Path        (shared, must never be written after Parse)
//	input    exec.Vars, map[string]any, []any, any          (shared documents and variables)
//	percall  exec.Executor, exec.valueList, exec.kvBaseObject, the parser's lexer and parser structs
//	types    a value of path/types
//	other    anything else
func typeClass(t types.Type, depth int) string {
	if depth > 6 {
		return "other"
	}
	switch u := t.(type) {
	case *types.Pointer:
		return typeClass(u.Elem(), depth+1)
	case *types.Alias:
		return typeClass(types.Unalias(u), depth+1)
	case *types.Named:
		obj := u.Obj()
		if obj.Pkg() == nil {
			if obj.Name() == "error" {
				return "other"
			}
			return typeClass(u.Underlying(), depth+1)
		}
		switch obj.Pkg().Path() {
		case mod + "/path/ast":
			return "ast"
		case mod + "/path":
			return "ast" // path.Path embeds *ast.AST; a *Path is the shared parsed path
		case mod + "/path/exec":
			switch obj.Name() {
			case "Executor", "valueList", "kvBaseObject":
				return "percall"
			case "Vars":
				return "input"
			}
			return "other"
		case mod + "/path/parser":
			return "percall"
		case mod + "/path/types":
			return "types"
		}
		return "other"
	case *types.Slice:
		if c := typeClass(u.Elem(), depth+1); c == "ast" || c == "input" {
			return c
		}
		return "other"
	case *types.Array:
		if c := typeClass(u.Elem(), depth+1); c == "ast" || c == "input" {
			return c
		}
		return "other"
	case *types.Map:
		if c := typeClass(u.Elem(), depth+1); c == "ast" || c == "input" {
			return c
		}
		return "other"
	case *types.Interface:
		if u.NumMethods() == 0 {
			return "input" // `any`: JSON documents and variables travel as any
		}
		return "other"
	}
	return "other"
}

// classify a store target.  reach tells whether the function is reachable from an
// execution entry point.
func (a *analyzer) classifyTarget(v ssa.Value, execReach bool) (classes []string, detail string) {
	roots, structs := a.rootsOf(v)
	if len(roots) == 0 {
		die("no root for %s in %s", v, v.Parent())
	}
	set := map[string]bool{}
	var descr []string
	for _, r := range roots {
		switch r.kind {
		case "global":
			set["global"] = true
			descr = append(descr, "global "+short(r.name))
		case "local":
			set["local"] = true
			descr = append(descr, short(r.name))
		case "owned":
			set["percall"] = true
			descr = append(descr, "owned field "+r.name)
		default:
			// the object is characterised by the struct types addressed on the way and the root's type
			cls := ""
			prio := map[string]int{"ast": 5, "input": 4, "types": 3, "other": 2, "percall": 1}
			best := func(c string) {
				if cls == "" || prio[c] > prio[cls] {
					cls = c
				}
			}
			for _, st := range structs {
				best(typeClass(st, 0))
			}
			rc := typeClass(r.typ, 0)
			if len(structs) == 0 || rc != "input" || !isEmptyInterface(r.typ) {
				// an `any` root viewed through a type assertion is what the assertion says
				best(rc)
			}
			switch cls {
			case "ast":
				if execReach {
					set["ast-write-at-exec"] = true
				} else {
					set["parse-time"] = true
				}
			case "input":
				set["input"] = true
			case "percall":
				set["percall"] = true
			case "types":
				set["types-value"] = true
			default:
				set["unknown:"+short(types.TypeString(r.typ, nil))] = true
			}
			descr = append(descr, fmt.Sprintf("%s %s:%s", r.how, r.name, short(types.TypeString(r.typ, nil))))
		}
	}
	for c := range set {
		classes = append(classes, c)
	}
	sort.Strings(classes)
	sort.Strings(descr)
	descr = uniq(descr)
	var via []string
	for _, st := range structs {
		via = append(via, short(types.TypeString(st, nil)))
	}
	via = uniq(via)
	if len(descr) > 6 {
		descr = append(descr[:6:6], fmt.Sprintf("(+%d more)", len(descr)-6))
	}
	detail = strings.Join(descr, " | ")
	if len(via) > 0 {
		detail += " via " + strings.Join(via, ",")
	}
	return classes, detail
}

func isEmptyInterface(t types.Type) bool {
	i, ok := t.Underlying().(*types.Interface)
	return ok && i.NumMethods() == 0
}

func uniq(xs []string) []string {
	sort.Strings(xs)
	var out []string
	for i, x := range xs {
		if i == 0 || x != xs[i-1] {
			out = append(out, x)
		}
	}
	return out
}

// ---------------------------------------------------------------------------
// main
// ---------------------------------------------------------------------------

type effect struct{ fn, kind, class, detail string }

func main() {
	repo := os.Getenv("VERIF_REPO")
	if repo == "" {
		repo = "/repo"
	}
	flag.StringVar(&repo, "repo", repo, "repository root")
	out := flag.String("out", "", "Effects.v to write")
	txt := flag.String("txt", "", "plain listing with source positions")
	flag.Parse()
	if *out == "" {
		die("-out required")
	}

	cfg := &packages.Config{Mode: packages.LoadAllSyntax, Dir: repo, Tests: false}
	pkgs, err := packages.Load(cfg, modPkgs...)
	if err != nil {
		die("packages.Load: %v", err)
	}
	if n := packages.PrintErrors(pkgs); n > 0 {
		die("%d package errors loading %s", n, repo)
	}
	got := map[string]bool{}
	for _, p := range pkgs {
		got[p.PkgPath] = true
		if len(p.GoFiles) == 0 || p.Types == nil || !p.Types.Complete() {
			die("package %s did not load completely", p.PkgPath)
		}
		for _, f := range p.GoFiles {
			if rel, err := filepath.Rel(repo, f); err != nil || strings.HasPrefix(rel, "..") {
				die("package %s was loaded from %s, outside %s", p.PkgPath, f, repo)
			}
		}
	}
	for _, want := range modPkgs {
		if !got[want] {
			die("package %s not loaded", want)
		}
	}

	prog, spkgs := ssautil.AllPackages(pkgs, ssa.InstantiateGenerics)
	for i, sp := range spkgs {
		if sp == nil {
			die("no SSA package for %s", pkgs[i].PkgPath)
		}
	}
	prog.Build()
	a := &analyzer{prog: prog, storesTo: map[*ssa.Alloc][]ssa.Value{}, closures: map[*ssa.Function][]*ssa.MakeClosure{}, fset: prog.Fset}

	all := ssautil.AllFunctions(prog)
	for f := range all {
		if inModule(f) && f.Blocks != nil {
			a.modFuncs = append(a.modFuncs, f)
		}
	}
	sort.Slice(a.modFuncs, func(i, j int) bool { return a.modFuncs[i].String() < a.modFuncs[j].String() })
	if len(a.modFuncs) < 300 {
		die("only %d functions found in the module: the packages did not load as expected", len(a.modFuncs))
	}

	// closure creation sites first (addrBase needs them), then stores into local cells
	for _, f := range a.modFuncs {
		for _, b := range f.Blocks {
			for _, ins := range b.Instrs {
				if mc, ok := ins.(*ssa.MakeClosure); ok {
					fn := mc.Fn.(*ssa.Function)
					a.closures[fn] = append(a.closures[fn], mc)
				}
			}
		}
	}
	for _, f := range a.modFuncs {
		for _, b := range f.Blocks {
			for _, ins := range b.Instrs {
				if st, ok := ins.(*ssa.Store); ok {
					if al, ok := a.addrBase(st.Addr).(*ssa.Alloc); ok {
						a.storesTo[al] = append(a.storesTo[al], st.Val)
					}
				}
			}
		}
	}

	// call graph
	cg := vta.CallGraph(all, cha.CallGraph(prog))
	cg.DeleteSyntheticNodes()
	a.cg = cg
	a.inferOwnership()
	if os.Getenv("EFFECTS_DEBUG") != "" {
		for k, why := range a.notOwned {
			fmt.Fprintf(os.Stderr, "notOwned %s #%d: %s\n", k.st, k.field, why)
		}
	}

	// entry points
	find := func(e entry) *ssa.Function {
		p := prog.ImportedPackage(mod + "/" + e.pkg)
		if p == nil {
			die("entry point package %s missing", e.pkg)
		}
		if e.recv == "" {
			f := p.Func(e.name)
			if f == nil {
				die("entry point %s.%s missing", e.pkg, e.name)
			}
			return f
		}
		t := p.Type(e.recv)
		if t == nil {
			die("entry point type %s.%s missing", e.pkg, e.recv)
		}
		ms := prog.MethodSets.MethodSet(types.NewPointer(t.Type()))
		sel := ms.Lookup(p.Pkg, e.name)
		if sel == nil {
			die("entry point (*%s.%s).%s missing", e.pkg, e.recv, e.name)
		}
		f := prog.MethodValue(sel)
		if f == nil {
			die("entry point (*%s.%s).%s has no SSA function", e.pkg, e.recv, e.name)
		}
		return f
	}
	reach := func(group string) map[*ssa.Function]bool {
		seen := map[*ssa.Function]bool{}
		var stack []*ssa.Function
		for _, e := range entries {
			if e.group == group {
				stack = append(stack, find(e))
			}
		}
		for len(stack) > 0 {
			f := stack[len(stack)-1]
			stack = stack[:len(stack)-1]
			if seen[f] {
				continue
			}
			seen[f] = true
			// closures are created by (hence reachable from) their parent even when never called
			for _, an := range f.AnonFuncs {
				stack = append(stack, an)
			}
			if n := cg.Nodes[f]; n != nil {
				for _, e := range n.Out {
					stack = append(stack, e.Callee.Func)
				}
			}
		}
		return seen
	}
	execReach := reach("exec")
	parseReach := reach("parse")

	if os.Getenv("EFFECTS_DEBUG") != "" {
		for _, f := range a.modFuncs {
			if execReach[f] && parseReach[f] {
				fmt.Fprintf(os.Stderr, "both %s\n", short(f.String()))
			}
		}
	}

	// which module globals are written (or have their address escape) outside initialisation?
	mutable := map[*ssa.Global]string{}
	for _, f := range a.modFuncs {
		if isInit(f) {
			continue
		}
		for _, b := range f.Blocks {
			for _, ins := range b.Instrs {
				var target ssa.Value
				switch s := ins.(type) {
				case *ssa.Store:
					target = s.Addr
				case *ssa.MapUpdate:
					target = s.Map
				case *ssa.Call:
					if t := builtinWriteTarget(&s.Call); t != nil {
						target = t
					}
				}
				if target != nil {
					rs, _ := a.rootsOf(target)
					for _, r := range rs {
						if r.kind == "global" {
							mutable[r.g] = "written in " + short(f.String())
						}
					}
				}
				// address escapes: a global used other than as the address of a load/store or
				// as the base of address arithmetic
				for _, op := range ins.Operands(nil) {
					g, ok := (*op).(*ssa.Global)
					if !ok {
						continue
					}
					switch s := ins.(type) {
					case *ssa.UnOp:
						if s.Op == token.MUL {
							continue
						}
					case *ssa.Store:
						if s.Addr == g {
							continue
						}
					case *ssa.FieldAddr, *ssa.IndexAddr:
						if escapes(ins.(ssa.Value), 0) {
							if _, done := mutable[g]; !done {
								mutable[g] = "address escapes in " + short(f.String())
							}
						}
						continue
					}
					if _, done := mutable[g]; !done {
						mutable[g] = "address escapes in " + short(f.String())
					}
				}
			}
		}
	}

	// ---- effects
	effs := map[effect][]string{}
	emit := func(f *ssa.Function, pos token.Pos, kind, class, detail string) {
		e := effect{short(f.String()), kind, class, detail}
		p := prog.Fset.Position(pos)
		ps := ""
		if p.IsValid() {
			ps = fmt.Sprintf("%s:%d", filepath.Base(p.Filename), p.Line)
		}
		effs[e] = append(effs[e], ps)
	}
	nfuncs := 0
	for _, f := range a.modFuncs {
		inE, inP := execReach[f], parseReach[f]
		if !inE && !inP {
			continue
		}
		nfuncs++
		for _, b := range f.Blocks {
			for _, ins := range b.Instrs {
				a.instrEffects(f, ins, inE, mutable, emit)
			}
		}
	}
	// struct types of the module holding synchronisation primitives
	for _, p := range pkgs {
		sc := p.Types.Scope()
		for _, n := range sc.Names() {
			tn, ok := sc.Lookup(n).(*types.TypeName)
			if !ok {
				continue
			}
			if st, ok := tn.Type().Underlying().(*types.Struct); ok {
				for i := 0; i < st.NumFields(); i++ {
					if mentionsPkg(st.Field(i).Type(), map[string]bool{"sync": true, "sync/atomic": true}, 0) {
						e := effect{short(tn.Pkg().Path() + "." + tn.Name()), "sync", "sync", "field " + st.Field(i).Name() + " " + st.Field(i).Type().String()}
						effs[e] = append(effs[e], "")
					}
				}
			}
		}
	}

	var list []effect
	for e := range effs {
		list = append(list, e)
	}
	sort.Slice(list, func(i, j int) bool {
		x, y := list[i], list[j]
		if x.fn != y.fn {
			return x.fn < y.fn
		}
		if x.kind != y.kind {
			return x.kind < y.kind
		}
		if x.class != y.class {
			return x.class < y.class
		}
		return x.detail < y.detail
	})
	if len(list) < 50 {
		die("only %d effects found: analysis did not see the code", len(list))
	}

	var sb strings.Builder
	sb.WriteString("(* GENERATED by tools/effects from the repository's current working tree -- do not edit.\n")
	sb.WriteString("   One line per effect of a function reachable from the entry points of C19:\n")
	sb.WriteString("   (function, kind, target class, detail).  P = github.com/theory/sqljson/path. *)\n")
	sb.WriteString("Require Import Coq.Strings.String Coq.Lists.List.\nImport ListNotations.\nLocal Open Scope string_scope.\n\n")
	sb.WriteString("Definition effect : Type := (string * string * string * string)%type.\n\n")
	fmt.Fprintf(&sb, "Definition reachable_functions : nat := %d.\n\n", nfuncs)
	sb.WriteString("Definition effects : list effect := [\n")
	for i, e := range list {
		sep := ";"
		if i == len(list)-1 {
			sep = ""
		}
		fmt.Fprintf(&sb, "  (%s, %s, %s, %s)%s\n", coqStr(e.fn), coqStr(e.kind), coqStr(e.class), coqStr(e.detail), sep)
	}
	sb.WriteString("].\n")
	writeIfChanged(*out, sb.String())

	if *txt != "" {
		var tb strings.Builder
		for _, e := range list {
			ps := uniq(effs[e])
			fmt.Fprintf(&tb, "%s\t%s\t%s\t%s\t%s\n", e.fn, e.kind, e.class, e.detail, strings.Join(ps, ","))
		}
		if err := os.WriteFile(*txt, []byte(tb.String()), 0o644); err != nil {
			die("%v", err)
		}
	}
	counts := map[string]int{}
	for _, e := range list {
		counts[e.kind+"/"+e.class]++
	}
	var keys []string
	for k := range counts {
		keys = append(keys, k)
	}
	sort.Strings(keys)
	fmt.Printf("effects: repo=%s functions=%d (exec-reachable %d, parse-reachable %d in module) effects=%d\n", repo, nfuncs, countMod(execReach), countMod(parseReach), len(list))
	for _, k := range keys {
		fmt.Printf("  %-40s %d\n", k, counts[k])
	}
}

// inferOwnership: greatest fixpoint of "only fresh memory, or the contents of an owned field, is
// ever stored into this field" over the pointer-like fields of the per-call structs.
func (a *analyzer) inferOwnership() {
	a.notOwned = map[fieldKey]string{}
	for changed := true; changed; {
		changed = false
		for _, f := range a.modFuncs {
			for _, b := range f.Blocks {
				for _, ins := range b.Instrs {
					st, ok := ins.(*ssa.Store)
					if !ok {
						continue
					}
					// a whole per-call struct overwritten by value: give up on its fields
					if sty, ok := st.Val.Type().Underlying().(*types.Struct); ok && typeClass(st.Val.Type(), 0) == "percall" && pointerLike(st.Val.Type()) {
						copyOfSame := true // a copy of an existing struct of the same type only duplicates owned contents
						if _, zero := st.Val.(*ssa.Const); !zero {
							rs, _ := a.rootsOf(st.Val)
							for _, r := range rs {
								if r.kind == "local" || r.kind == "owned" || r.kind == "typed" && r.typ != nil && types.Identical(r.typ, st.Val.Type()) {
									continue
								}
								copyOfSame = false
							}
						}
						if !copyOfSame {
							for i := 0; i < sty.NumFields(); i++ {
								k := fieldKey{types.TypeString(st.Val.Type(), nil), i}
								if _, done := a.notOwned[k]; !done && pointerLike(sty.Field(i).Type()) {
									a.notOwned[k] = "struct stored by value in " + short(f.String())
									changed = true
								}
							}
						}
					}
					fa, ok := st.Addr.(*ssa.FieldAddr)
					if !ok {
						continue
					}
					k, fv, ok := fieldOf(fa)
					if !ok || !pointerLike(fv.Type()) {
						continue
					}
					if _, done := a.notOwned[k]; done {
						continue
					}
					rs, _ := a.rootsOf(st.Val)
					for _, r := range rs {
						if r.kind != "local" && r.kind != "owned" {
							a.notOwned[k] = fmt.Sprintf("%s stored in %s", r.kind+" "+r.how+" "+r.name, short(f.String()))
							changed = true
							break
						}
					}
				}
			}
		}
	}
}

func countMod(m map[*ssa.Function]bool) int {
	n := 0
	for f := range m {
		if inModule(f) && f.Blocks != nil {
			n++
		}
	}
	return n
}

// escapes: is an address derived from a global used for anything but loads?
func escapes(v ssa.Value, depth int) bool {
	if depth > 8 {
		return true
	}
	refs := v.Referrers()
	if refs == nil {
		return false
	}
	for _, r := range *refs {
		switch x := r.(type) {
		case *ssa.UnOp:
			if x.Op != token.MUL {
				return true
			}
		case *ssa.FieldAddr:
			if escapes(x, depth+1) {
				return true
			}
		case *ssa.IndexAddr:
			if escapes(x, depth+1) {
				return true
			}
		case *ssa.Store:
			if x.Val == v {
				return true
			}
			// a store THROUGH the address is recorded by the store scan
		case *ssa.DebugRef:
		default:
			return true
		}
	}
	return false
}

// builtinWriteTarget: append/copy/delete/clear write their first argument
func builtinWriteTarget(c *ssa.CallCommon) ssa.Value {
	b, ok := c.Value.(*ssa.Builtin)
	if !ok || len(c.Args) == 0 {
		return nil
	}
	switch b.Name() {
	case "append", "copy", "delete", "clear":
		return c.Args[0]
	}
	return nil
}

func mentionsPkg(t types.Type, pkgs map[string]bool, depth int) bool {
	if depth > 5 {
		return false
	}
	switch u := t.(type) {
	case *types.Named:
		if u.Obj().Pkg() != nil && pkgs[u.Obj().Pkg().Path()] {
			return true
		}
		if u.Obj().Pkg() != nil && !strings.HasPrefix(u.Obj().Pkg().Path(), mod) {
			return false
		}
		return mentionsPkg(u.Underlying(), pkgs, depth+1)
	case *types.Pointer:
		return mentionsPkg(u.Elem(), pkgs, depth+1)
	case *types.Slice:
		return mentionsPkg(u.Elem(), pkgs, depth+1)
	case *types.Array:
		return mentionsPkg(u.Elem(), pkgs, depth+1)
	case *types.Map:
		return mentionsPkg(u.Elem(), pkgs, depth+1) || mentionsPkg(u.Key(), pkgs, depth+1)
	case *types.Chan:
		return true
	case *types.Struct:
		for i := 0; i < u.NumFields(); i++ {
			if mentionsPkg(u.Field(i).Type(), pkgs, depth+1) {
				return true
			}
		}
	}
	return false
}

func isCtxDone(v ssa.Value) bool {
	c, ok := v.(*ssa.Call)
	if !ok {
		return false
	}
	if !c.Call.IsInvoke() || c.Call.Method.Name() != "Done" {
		return false
	}
	n, ok := c.Call.Value.Type().(*types.Named)
	return ok && n.Obj().Pkg() != nil && n.Obj().Pkg().Path() == "context" && n.Obj().Name() == "Context"
}

var nondetPkgs = map[string]string{
	"math/rand": "rand", "math/rand/v2": "rand", "crypto/rand": "rand",
	"os": "os", "os/exec": "os", "os/signal": "os", "syscall": "os",
	"unsafe": "unsafe", "reflect": "reflect", "runtime": "runtime",
}

var stdMutators = map[string]bool{"Sort": true, "SortFunc": true, "SortStableFunc": true, "Reverse": true, "Slice": true,
	"SliceStable": true, "Strings": true, "Ints": true, "Float64s": true, "Stable": true, "Insert": true, "Delete": true,
	"Compact": true, "CompactFunc": true, "Replace": true, "Grow": true, "Clip": true, "DeleteFunc": true}

var timeNondet = map[string]bool{"Now": true, "Since": true, "Until": true, "After": true, "AfterFunc": true,
	"Tick": true, "NewTimer": true, "NewTicker": true, "Sleep": true}

func globalClass(g *ssa.Global, mutable map[*ssa.Global]string) (string, string) {
	name := g.Name()
	pkg := ""
	if g.Pkg != nil {
		pkg = g.Pkg.Pkg.Path()
	}
	elem := g.Type().(*types.Pointer).Elem()
	if !strings.HasPrefix(pkg, mod) {
		if types.Identical(elem, types.Universe.Lookup("error").Type()) && strings.HasPrefix(name, "Err") || pkg == "io" && name == "EOF" {
			return "immutable:stdlib", "error sentinel"
		}
		if pkg == "time" && name == "UTC" {
			return "immutable:stdlib", "time.UTC"
		}
		return "stdlib-unknown", types.TypeString(elem, nil)
	}
	if why, ok := mutable[g]; ok {
		return "mutable", why
	}
	switch {
	case types.Identical(elem, types.Universe.Lookup("error").Type()) && (strings.HasPrefix(name, "Err") || name == "NULL"):
		return "immutable:error-sentinel", "error"
	case strings.HasPrefix(name, "_") && (strings.Contains(name, "_index") || strings.Contains(name, "_name")):
		return "immutable:stringer-table", short(types.TypeString(elem, nil))
	case pkg == mod+"/path/parser" && strings.HasPrefix(name, "path"):
		return "immutable:parser-table", short(types.TypeString(elem, nil))
	}
	return "immutable:other", short(types.TypeString(elem, nil))
}

func (a *analyzer) instrEffects(f *ssa.Function, ins ssa.Instruction, execReach bool, mutable map[*ssa.Global]string,
	emit func(*ssa.Function, token.Pos, string, string, string)) {
	pos := ins.Pos()
	if !pos.IsValid() {
		if v, ok := ins.(ssa.Value); ok {
			_ = v
		}
		pos = f.Pos()
	}
	store := func(target ssa.Value, what string) {
		classes, detail := a.classifyTarget(target, execReach)
		for _, c := range classes {
			emit(f, pos, "store", c, what+" "+detail)
		}
	}
	switch s := ins.(type) {
	case *ssa.Store:
		what := "store"
		if fa, ok := s.Addr.(*ssa.FieldAddr); ok {
			st := fa.X.Type().Underlying().(*types.Pointer).Elem()
			what = "store ." + st.Underlying().(*types.Struct).Field(fa.Field).Name()
		} else if _, ok := s.Addr.(*ssa.IndexAddr); ok {
			what = "store [i]"
		}
		store(s.Addr, what)
	case *ssa.MapUpdate:
		store(s.Map, "mapupdate")
	case *ssa.Go:
		emit(f, pos, "sync", "sync", "go statement")
	case *ssa.Send:
		emit(f, pos, "sync", "sync", "channel send")
	case *ssa.MakeChan:
		emit(f, pos, "sync", "sync", "make(chan)")
	case *ssa.Select:
		for _, st := range s.States {
			if st.Dir == types.RecvOnly && isCtxDone(st.Chan) {
				emit(f, pos, "sync", "ctx-done", "select on ctx.Done()")
			} else {
				emit(f, pos, "sync", "sync", "select on a channel")
			}
		}
	case *ssa.UnOp:
		if s.Op == token.ARROW {
			if isCtxDone(s.X) {
				emit(f, pos, "sync", "ctx-done", "receive on ctx.Done()")
			} else {
				emit(f, pos, "sync", "sync", "channel receive")
			}
		}
	case *ssa.Range:
		if _, ok := s.X.Type().Underlying().(*types.Map); ok {
			emit(f, pos, "nondet", "map-range", "range over "+short(types.TypeString(s.X.Type(), nil)))
		}
	case *ssa.Convert:
		if b, ok := s.Type().Underlying().(*types.Basic); ok && b.Kind() == types.UnsafePointer {
			emit(f, pos, "nondet", "unsafe", "conversion to unsafe.Pointer")
		}
		if b, ok := s.X.Type().Underlying().(*types.Basic); ok && b.Kind() == types.UnsafePointer {
			emit(f, pos, "nondet", "unsafe", "conversion from unsafe.Pointer")
		}
	}
	// calls (Call, Defer, Go)
	if ci, ok := ins.(ssa.CallInstruction); ok {
		c := ci.Common()
		if t := builtinWriteTarget(c); t != nil {
			store(t, c.Value.Name()+"()")
		}
		var pkg *types.Package
		name := ""
		if c.IsInvoke() {
			pkg = c.Method.Pkg()
			name = "(" + types.TypeString(c.Value.Type(), nil) + ")." + c.Method.Name()
		} else if callee := c.StaticCallee(); callee != nil {
			pkg = fnPkg(callee)
			name = callee.String()
			if callee.Object() != nil {
				name = callee.Object().(*types.Func).FullName()
			}
		}
		if pkg != nil {
			pp := pkg.Path()
			base := name
			if i := strings.Index(base, "["); i >= 0 {
				base = base[:i]
			}
			base = base[strings.LastIndex(base, ".")+1:]
			if (pp == "slices" || pp == "sort") && !c.IsInvoke() && len(c.Args) > 0 && stdMutators[base] {
				store(c.Args[0], pp+"."+base+"()")
			}
			if pp == "maps" && (base == "Keys" || base == "Values" || base == "All") {
				emit(f, pos, "nondet", "map-range", "call maps."+base+" (iteration order)")
			}
			switch {
			case pp == "sync" || pp == "sync/atomic":
				emit(f, pos, "sync", "sync", "call "+name)
			case pp == "time":
				base := name[strings.LastIndex(name, ".")+1:]
				if timeNondet[base] && !strings.Contains(name, ")") {
					emit(f, pos, "nondet", "time."+base, "call "+name)
				}
			default:
				if cls, ok := nondetPkgs[pp]; ok {
					emit(f, pos, "nondet", cls, "call "+name)
				}
			}
		}
	}
	// uses of package-level variables
	for _, op := range ins.Operands(nil) {
		g, ok := (*op).(*ssa.Global)
		if !ok {
			continue
		}
		if st, ok := ins.(*ssa.Store); ok && st.Addr == g {
			continue // recorded as a store
		}
		cls, why := globalClass(g, mutable)
		emit(f, pos, "globalread", cls, short(g.String())+" : "+why)
	}
}

func coqStr(s string) string { return `"` + strings.ReplaceAll(s, `"`, `""`) + `"` }

func writeIfChanged(path, content string) {
	old, err := os.ReadFile(path)
	if err == nil && string(old) == content {
		fmt.Println("unchanged", path)
		return
	}
	if err := os.WriteFile(path, []byte(content), 0o644); err != nil {
		die("%v", err)
	}
	fmt.Println("updated", path)
}
