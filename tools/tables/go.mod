module tables

go 1.23.0
