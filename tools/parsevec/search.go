// search.go: the search legs of the checks C02, C03, C04.  Each mode reads
// hex-encoded inputs (one per line) and prints exactly one line per input, in
// input order; the inputs are processed by a pool of workers, each input in
// its own goroutine under recover() and a watchdog.
//
//	-c02  round trips of the canonical text: for every accepted input p,
//	      q := Parse(p.String()) must succeed with the same tree / mode /
//	      predicate flag, q.String() == p.String(), the same through
//	      MarshalText/UnmarshalText, MarshalBinary/UnmarshalBinary, Value/Scan,
//	      and p and q must return the same results on a pool of documents.
//	      Output: "REJ <kind>" or "ACC <json>" (see c02Out).
//	-c03  the tree of every spelling: "OK <sexp> <hex String()> <@?|@@>" or
//	      "ERR <kind> <hexmsg>"; the expected tree is computed by the generator.
//	-c04  totality: "A|R <kind> <json>" (see c04Out), preceded by one line
//	      "PRE ..." for the input-independent checks (Scan(nil), Scan("")).
package main

import (
	"bufio"
	"context"
	"database/sql/driver"
	"encoding/hex"
	"encoding/json"
	"errors"
	"fmt"
	"math"
	"os"
	"runtime"
	"sort"
	"strconv"
	"strings"
	"sync"
	"time"
	"unicode/utf8"

	"github.com/theory/sqljson/path"
	"github.com/theory/sqljson/path/ast"
	"github.com/theory/sqljson/path/exec"
	"github.com/theory/sqljson/path/parser"
)

const watchdog = 5 * time.Second

type failure struct {
	Check string `json:"check"`
	Exp   string `json:"exp"`
	Obs   string `json:"obs"`
}

// searchMain runs f on every input line with a worker pool; output order is
// input order.  An input that does not return within the watchdog is reported
// as HANG (its goroutine is abandoned).
func searchMain(f func(src string) string) {
	var inputs []string
	in := bufio.NewScanner(os.Stdin)
	in.Buffer(make([]byte, 1<<20), 1<<26)
	for in.Scan() {
		inputs = append(inputs, strings.TrimSpace(in.Text()))
	}
	outs := make([]string, len(inputs))
	var wg sync.WaitGroup
	next := make(chan int, 256)
	workers := runtime.GOMAXPROCS(0)
	if workers > 12 {
		workers = 12
	}
	for w := 0; w < workers; w++ {
		wg.Add(1)
		go func() {
			defer wg.Done()
			for i := range next {
				raw, err := hex.DecodeString(inputs[i])
				if err != nil {
					outs[i] = "BADHEX"
					continue
				}
				done := make(chan string, 1)
				go func() {
					defer func() {
						if r := recover(); r != nil {
							done <- "PANIC " + hx(fmt.Sprint(r))
						}
					}()
					done <- f(string(raw))
				}()
				select {
				case s := <-done:
					outs[i] = s
				case <-time.After(watchdog):
					outs[i] = "HANG"
				}
			}
		}()
	}
	for i := range inputs {
		next <- i
	}
	close(next)
	wg.Wait()
	out := bufio.NewWriter(os.Stdout)
	defer out.Flush()
	for _, s := range outs {
		fmt.Fprintln(out, s)
	}
}

// ---------------------------------------------------------------------------
// tree walk: known-finding classes of C02, coverage histograms
// ---------------------------------------------------------------------------

type walkInfo struct {
	cls     map[string]bool // known-finding classes present in the tree
	triples map[string]bool // parent/child/tail
	kinds   map[string]bool // node kinds
	chars   map[string]bool // position:code-point class
	vars    map[string]bool
	regexes []*ast.RegexNode
}

func newWalk() *walkInfo {
	return &walkInfo{cls: map[string]bool{}, triples: map[string]bool{}, kinds: map[string]bool{},
		chars: map[string]bool{}, vars: map[string]bool{}}
}

// prio mirrors the printer's priority table (ast.go): it decides where the
// printer writes parentheses.
func prio(n ast.Node) int {
	switch n := n.(type) {
	case *ast.BinaryNode:
		switch n.Operator() {
		case ast.BinaryOr:
			return 0
		case ast.BinaryAnd:
			return 1
		case ast.BinaryEqual, ast.BinaryNotEqual, ast.BinaryLess, ast.BinaryGreater,
			ast.BinaryLessOrEqual, ast.BinaryGreaterOrEqual, ast.BinaryStartsWith:
			return 2
		case ast.BinaryAdd, ast.BinarySub:
			return 3
		case ast.BinaryMul, ast.BinaryDiv, ast.BinaryMod:
			return 4
		}
		return 6
	case *ast.UnaryNode:
		if n.Operator() == ast.UnaryPlus || n.Operator() == ast.UnaryMinus {
			return 5
		}
	}
	return 6
}

// opName: the operator name of an operator node ("" for the others);
// parenthesisable: the printer honours withParens for this node.
func opName(n ast.Node) (name string, parenthesisable bool) {
	switch n := n.(type) {
	case *ast.BinaryNode:
		if s, ok := binNames[n.Operator()]; ok {
			return s, true
		}
	case *ast.UnaryNode:
		switch n.Operator() {
		case ast.UnaryPlus, ast.UnaryMinus:
			return unNames[n.Operator()], true
		case ast.UnaryExists, ast.UnaryNot, ast.UnaryIsUnknown:
			return unNames[n.Operator()], false
		}
	case *ast.RegexNode:
		return "regex", true
	}
	return "", false
}

func atomName(n ast.Node) string {
	switch n := n.(type) {
	case *ast.ConstNode:
		return constNames[n.Const()]
	case *ast.StringNode:
		return "str"
	case *ast.VariableNode:
		return "var"
	case *ast.IntegerNode:
		return "int"
	case *ast.NumericNode:
		return "num"
	case *ast.KeyNode:
		return "key"
	}
	return fmt.Sprintf("%T", n)
}

func runeClass(r rune) string {
	switch {
	case r == '"':
		return "quote"
	case r == '\\':
		return "backslash"
	case r == 7:
		return "bel"
	case r < 0x20:
		return "c0"
	case r == 0x7f:
		return "del"
	case r < 0x7f:
		return "ascii"
	case r < 0xa0:
		return "c1"
	case r == 0x2028 || r == 0x2029:
		return "u2028"
	case r == utf8.RuneError:
		return "fffd"
	case r <= 0xffff && strconv.IsPrint(r):
		return "bmp-print"
	case r <= 0xffff:
		return "bmp-nonprint"
	case strconv.IsPrint(r):
		return "astral-print"
	}
	return "astral-nonprint"
}

func (w *walkInfo) text(pos, s string) {
	if s == "" {
		w.chars[pos+":empty"] = true
	}
	for _, r := range s {
		w.chars[pos+":"+runeClass(r)] = true
	}
}

// operand walks an operand chain whose head is printed with the given
// withParens argument (as in the writeTo methods of ast.go).
func (w *walkInfo) operand(parent string, n ast.Node, withParens bool) {
	if isNil(n) {
		return
	}
	tail := !isNil(n.Next())
	name, canParen := opName(n)
	child := name
	if child == "" {
		child = atomName(n)
	}
	t := "0"
	if tail {
		t = "1"
	}
	w.triples[parent+"/"+child+"/"+t] = true
	if name != "" && tail && !(canParen && withParens) {
		// an operator node with an accessor chain, printed without parentheses
		w.cls["C02-operator-with-accessor-chain"] = true
	}
	for ; !isNil(n); n = n.Next() {
		w.node(n)
	}
}

func (w *walkInfo) node(n ast.Node) {
	switch n := n.(type) {
	case *ast.ConstNode:
		w.kinds["const-"+constNames[n.Const()]] = true
	case *ast.StringNode:
		w.kinds["str"] = true
		w.text("str", n.Text())
	case *ast.VariableNode:
		w.kinds["var"] = true
		w.vars[n.Text()] = true
		w.text("var", n.Text())
	case *ast.KeyNode:
		w.kinds["key"] = true
		w.text("key", n.Text())
	case *ast.IntegerNode:
		w.kinds["int"] = true
	case *ast.NumericNode:
		w.kinds["num"] = true
		f := n.Float()
		if !math.IsInf(f, 0) && !math.IsNaN(f) && f == math.Trunc(f) {
			w.cls["C02-integral-numeric"] = true
			w.kinds["num-integral"] = true
		}
	case *ast.MethodNode:
		w.kinds["meth-"+methNames[n.Name()]] = true
	case *ast.AnyNode:
		f, l := "n", "n"
		if n.First() == math.MaxUint32 {
			f = "last"
		} else if n.First() == 0 {
			f = "0"
		}
		if n.Last() == math.MaxUint32 {
			l = "last"
		} else if n.Last() == 0 {
			l = "0"
		}
		eq := ""
		if n.First() == n.Last() {
			eq = "="
		}
		w.kinds["any-"+f+"-"+l+eq] = true
	case *ast.BinaryNode:
		switch n.Operator() {
		case ast.BinaryDecimal:
			k := "decimal"
			if !isNil(n.Left()) {
				k += "-p"
			}
			if !isNil(n.Right()) {
				k += "-s"
			}
			w.kinds[k] = true
		case ast.BinarySubscript:
			w.kinds["BADSUBSCRIPT"] = true
		default:
			nm := binNames[n.Operator()]
			w.kinds["bin-"+nm] = true
			w.operand(nm+"-L", n.Left(), prio(n.Left()) <= prio(n))
			w.operand(nm+"-R", n.Right(), prio(n.Right()) <= prio(n))
		}
	case *ast.UnaryNode:
		if nm, ok := dtNames[n.Operator()]; ok {
			w.kinds["dt-"+nm] = true
			if s, ok := n.Operand().(*ast.StringNode); ok && !isNil(s) {
				w.text("template", s.Text())
			}
			return
		}
		nm := unNames[n.Operator()]
		w.kinds["un-"+nm] = true
		switch n.Operator() {
		case ast.UnaryPlus, ast.UnaryMinus:
			w.operand(nm, n.Operand(), prio(n.Operand()) <= prio(n))
		default: // exists, not, is unknown, filter: the operand is written without parentheses of its own
			w.operand(nm, n.Operand(), false)
		}
	case *ast.RegexNode:
		w.kinds["regex"] = true
		w.regexes = append(w.regexes, n)
		pat, fl := regexFields(n)
		w.text("pattern", pat)
		w.kinds[fmt.Sprintf("regex-flags-%d", fl)] = true
		w.operand("regex", n.Operand(), true) // prio(operand) <= 6 always
	case *ast.ArrayIndexNode:
		w.kinds["index"] = true
		for _, s := range n.Subscripts() {
			bn, ok := s.(*ast.BinaryNode)
			if !ok {
				continue
			}
			w.operand("subscript", bn.Left(), false)
			if !isNil(bn.Right()) {
				w.kinds["index-range"] = true
				w.operand("subscript-to", bn.Right(), false)
			}
		}
	}
}

func walkTree(tree *ast.AST) *walkInfo {
	w := newWalk()
	w.operand("root", tree.Root(), true) // AST.String: root.writeTo(buf, false, true)
	return w
}

func keys(m map[string]bool) []string {
	out := make([]string, 0, len(m))
	for k := range m {
		out = append(out, k)
	}
	sort.Strings(out)
	return out
}

// ---------------------------------------------------------------------------
// C02
// ---------------------------------------------------------------------------

var docTexts = []string{
	`null`, `17`, `-2.5`, `"abc"`, `"2023-08-15T12:34:56+05:30"`, `[]`, `{}`,
	`[1, 2.5, "a", null, true, [3, [4]], {"a": {"a": 7}}]`,
	`{"a": [10, 20, {"b": "x"}]}`,
	`{"k": {"a": 1, "b": 2}}`,
}

type docPair struct {
	text  string
	plain any
	num   any
}

var docs = func() []docPair {
	var out []docPair
	for _, t := range docTexts {
		var a, b any
		if err := json.Unmarshal([]byte(t), &a); err != nil {
			panic(err)
		}
		d := json.NewDecoder(strings.NewReader(t))
		d.UseNumber()
		if err := d.Decode(&b); err != nil {
			panic(err)
		}
		out = append(out, docPair{t, a, b})
	}
	return out
}()

func canon(v any) string {
	switch x := v.(type) {
	case nil:
		return "null"
	case map[string]any:
		ks := make([]string, 0, len(x))
		for k := range x {
			ks = append(ks, k)
		}
		sort.Strings(ks)
		isKV := len(ks) == 3 && ks[0] == "id" && ks[1] == "key" && ks[2] == "value"
		var b strings.Builder
		b.WriteByte('{')
		for _, k := range ks {
			if isKV && k == "id" {
				b.WriteString(`"id":ID,`)
				continue
			}
			b.WriteString(strconv.Quote(k) + ":" + canon(x[k]) + ",")
		}
		b.WriteByte('}')
		return b.String()
	case []any:
		var b strings.Builder
		b.WriteByte('[')
		for _, e := range x {
			b.WriteString(canon(e) + ",")
		}
		b.WriteByte(']')
		return b.String()
	case float64:
		return fmt.Sprintf("float64(%016x)", math.Float64bits(x))
	}
	return fmt.Sprintf("%T(%v)", v, v)
}

func errClass(err error) string {
	switch {
	case err == nil:
		return "nil"
	case errors.Is(err, exec.ErrVerbose):
		return "ErrVerbose"
	case errors.Is(err, exec.ErrExecution):
		return "ErrExecution"
	case errors.Is(err, exec.ErrInvalid):
		return "ErrInvalid"
	case errors.Is(err, exec.NULL):
		return "NULL"
	}
	return "other"
}

// queryCanon: the observable outcome of Query; result items as a multiset
// (the iteration order over object members is not fixed), errors by class.
func queryCanon(ctx context.Context, p *path.Path, doc any, opts []exec.Option) (out string) {
	defer func() {
		if r := recover(); r != nil {
			out = "PANIC " + fmt.Sprint(r)
		}
	}()
	res, err := p.Query(ctx, doc, opts...)
	if err != nil {
		return "error:" + errClass(err)
	}
	items := make([]string, len(res))
	for i, v := range res {
		items[i] = canon(v)
	}
	sort.Strings(items)
	return "items:" + strings.Join(items, ";")
}

func varsFor(w *walkInfo) exec.Vars {
	vars := exec.Vars{}
	pool := []any{int64(2), "a", 2.5, json.Number("3")}
	for i, k := range keys(w.vars) {
		vars[k] = pool[i%len(pool)]
	}
	return vars
}

type c02Out struct {
	S       string    `json:"s"` // hex of String()
	Cls     []string  `json:"cls,omitempty"`
	Triples []string  `json:"trip,omitempty"`
	Kinds   []string  `json:"kinds,omitempty"`
	Chars   []string  `json:"chars,omitempty"`
	Queries int       `json:"nq"`
	Fail    []failure `json:"fail,omitempty"`
}

func c02Line(src string) string {
	p, err := path.Parse(src)
	if err != nil {
		if p != nil {
			return "REJ BOTH"
		}
		return "REJ " + classify(strings.TrimPrefix(err.Error(), "path: "))
	}
	o := c02Check(p)
	b, _ := json.Marshal(o)
	return "ACC " + string(b)
}

func c02Check(p *path.Path) (o c02Out) {
	var fails []failure
	add := func(check, exp, obs string) { fails = append(fails, failure{check, exp, obs}) }
	defer func() {
		if r := recover(); r != nil {
			add("panic", "no panic", fmt.Sprint(r))
		}
		o.Fail = fails
	}()
	w := walkTree(p.AST)
	o.Cls, o.Triples, o.Kinds, o.Chars = keys(w.cls), keys(w.triples), keys(w.kinds), keys(w.chars)
	s := p.String()
	o.S = hex.EncodeToString([]byte(s))
	dp := dumpAST(p.AST)

	same := func(via string, q *path.Path) {
		if q.AST == nil {
			add(via+":tree", dp, "nil AST")
			return
		}
		if dq := dumpAST(q.AST); dq != dp {
			add(via+":tree", dp, dq)
		}
		if q.IsLax() != p.IsLax() || q.IsPredicate() != p.IsPredicate() || q.PgIndexOperator() != p.PgIndexOperator() {
			add(via+":flags", fmt.Sprintf("lax=%v pred=%v", p.IsLax(), p.IsPredicate()), fmt.Sprintf("lax=%v pred=%v", q.IsLax(), q.IsPredicate()))
		}
		if qs := q.String(); qs != s {
			add(via+":fixpoint", s, qs)
		}
	}

	// String -> Parse
	q, err := path.Parse(s)
	if err != nil {
		add("reparse", "Parse(p.String()) succeeds on "+strconv.Quote(s), err.Error())
	} else {
		same("string", q)
	}
	// MarshalText -> UnmarshalText
	if b, err := p.MarshalText(); err != nil {
		add("marshaltext", "nil error", err.Error())
	} else {
		if string(b) != s {
			add("marshaltext:text", s, string(b))
		}
		var r path.Path
		if err := r.UnmarshalText(b); err != nil {
			add("unmarshaltext", "UnmarshalText(MarshalText(p)) succeeds on "+strconv.Quote(string(b)), err.Error())
		} else {
			same("text", &r)
		}
	}
	// MarshalBinary -> UnmarshalBinary
	if b, err := p.MarshalBinary(); err != nil {
		add("marshalbinary", "nil error", err.Error())
	} else {
		if string(b) != s {
			add("marshalbinary:text", s, string(b))
		}
		var r path.Path
		if err := r.UnmarshalBinary(b); err != nil {
			add("unmarshalbinary", "UnmarshalBinary(MarshalBinary(p)) succeeds on "+strconv.Quote(string(b)), err.Error())
		} else {
			same("binary", &r)
		}
	}
	// Value -> Scan
	var v driver.Value
	v, err = p.Value()
	if err != nil {
		add("value", "nil error", err.Error())
	} else if vs, ok := v.(string); !ok {
		add("value:type", "string", fmt.Sprintf("%T", v))
	} else {
		if vs != s {
			add("value:text", s, vs)
		}
		var r1, r2 path.Path
		if err := r1.Scan(v); err != nil {
			add("scan-string", "Scan(Value(p)) succeeds on "+strconv.Quote(vs), err.Error())
		} else {
			same("scan-string", &r1)
		}
		if err := r2.Scan([]byte(vs)); err != nil {
			add("scan-bytes", "Scan([]byte(Value(p))) succeeds on "+strconv.Quote(vs), err.Error())
		} else {
			same("scan-bytes", &r2)
		}
	}
	// behaviour
	if q != nil {
		ctx, cancel := context.WithTimeout(context.Background(), 2*time.Second)
		defer cancel()
		vars := varsFor(w)
		optsets := [][]exec.Option{{exec.WithVars(vars)}, {exec.WithVars(vars), exec.WithSilent()}}
		nbad := 0
		for _, d := range docs {
			for di, doc := range []any{d.plain, d.num} {
				for si, opts := range optsets {
					if ctx.Err() != nil {
						break
					}
					a := queryCanon(ctx, p, doc, opts)
					b := queryCanon(ctx, q, doc, opts)
					o.Queries++
					if ctx.Err() != nil {
						break // a timed-out pair is not a comparison
					}
					if a != b && nbad < 3 {
						// Where the iteration order of a Go map decides the outcome (e.g. .* over a {id,key,value}
						// object that .keyvalue() built, with a hard error under one member and a suppressible one
						// under another) the SAME path gives different outcomes from run to run. That is not a
						// difference between p and its re-parse: repeat both and compare the sets of outcomes.
						seenA, seenB := map[string]bool{a: true}, map[string]bool{b: true}
						for rep := 0; rep < 16 && ctx.Err() == nil; rep++ {
							seenA[queryCanon(ctx, p, doc, opts)] = true
							seenB[queryCanon(ctx, q, doc, opts)] = true
						}
						overlap := false
						for k := range seenA {
							if seenB[k] {
								overlap = true
							}
						}
						if overlap {
							continue
						}
						nbad++
						add(fmt.Sprintf("query:doc=%s;number=%v;silent=%v", d.text, di == 1, si == 1), a, b)
					}
				}
			}
		}
	}
	return o
}

// ---------------------------------------------------------------------------
// C03
// ---------------------------------------------------------------------------

func c03Line(src string) string {
	p, err := path.Parse(src)
	if (p == nil) == (err == nil) {
		return "BOTH_OR_NEITHER"
	}
	if err != nil {
		msg := strings.TrimPrefix(err.Error(), "path: ")
		return fmt.Sprintf("ERR %s %s", classify(msg), hx(msg))
	}
	pg := p.PgIndexOperator()
	want := "@?"
	if p.IsPredicate() {
		want = "@@"
	}
	if pg != want {
		pg = "MISMATCH(" + pg + ")"
	}
	return fmt.Sprintf("OK %s %s %s", dumpAST(p.AST), hx(p.String()), pg)
}

// ---------------------------------------------------------------------------
// C04
// ---------------------------------------------------------------------------

type c04Out struct {
	Regex int       `json:"regex,omitempty"` // like_regex nodes compiled and executed
	Fail  []failure `json:"fail,omitempty"`
}

// guard runs f under recover and reports a panic.
func guard(f func()) (panicked bool, val any) {
	defer func() {
		if r := recover(); r != nil {
			panicked, val = true, r
		}
	}()
	f()
	return false, nil
}

func c04Preamble() string {
	var fails []failure
	add := func(check, exp, obs string) { fails = append(fails, failure{check, exp, obs}) }
	pn, v := guard(func() {
		for _, src := range []any{nil, "", []byte{}, []byte(nil)} {
			p := path.MustParse("$.a")
			before := p.String()
			if err := p.Scan(src); err != nil {
				add(fmt.Sprintf("scan-noop(%#v)", src), "nil error", err.Error())
			}
			if p.AST == nil || p.String() != before {
				add(fmt.Sprintf("scan-noop(%#v)", src), "path unchanged", "path changed")
			}
		}
		p := path.MustParse("$.a")
		err := p.Scan(42)
		if err == nil || !errors.Is(err, path.ErrScan) {
			add("scan(42)", "error wrapping path.ErrScan", fmt.Sprint(err))
		}
	})
	if pn {
		add("scan-noop", "no panic", fmt.Sprint(v))
	}
	if len(fails) == 0 {
		return "PRE ok"
	}
	b, _ := json.Marshal(fails)
	return "PRE FAIL " + string(b)
}

func c04Line(src string) string {
	var o c04Out
	add := func(check, exp, obs string) { o.Fail = append(o.Fail, failure{check, exp, obs}) }
	var p *path.Path
	var err error
	if pn, v := guard(func() { p, err = path.Parse(src) }); pn {
		add("parse-panic", "path.Parse returns", "panic: "+fmt.Sprint(v))
		b, _ := json.Marshal(o)
		return "P panic " + string(b)
	}
	acc := err == nil
	kind := "-"
	switch {
	case p == nil && err == nil:
		add("both-nil", "a path or an error", "(nil, nil)")
		acc = false
	case p != nil && err != nil:
		add("both-non-nil", "a path xor an error", "path and error: "+err.Error())
	case err != nil:
		kind = classify(strings.TrimPrefix(err.Error(), "path: "))
		if !errors.Is(err, path.ErrPath) || !errors.Is(err, parser.ErrParse) {
			add("error-chain", "error wraps path.ErrPath and parser.ErrParse", err.Error())
		}
	case p.AST == nil:
		add("nil-ast", "Path with a tree", "Path{nil}")
		acc = false
	}
	// parser.Parse agrees
	if pn, v := guard(func() {
		tree, perr := parser.Parse(src)
		if (tree == nil) == (perr == nil) {
			add("parser-both", "tree xor error", fmt.Sprintf("tree nil=%v err=%v", tree == nil, perr))
		} else if (perr == nil) != acc {
			add("parser-vs-path", fmt.Sprintf("accept=%v", acc), fmt.Sprintf("accept=%v", perr == nil))
		} else if perr != nil && !errors.Is(perr, parser.ErrParse) {
			add("parser-error-chain", "error wraps parser.ErrParse", perr.Error())
		}
	}); pn {
		add("parser-panic", "parser.Parse returns", "panic: "+fmt.Sprint(v))
	}
	// MustParse panics iff Parse errs
	var mp *path.Path
	pn, v := guard(func() { mp = path.MustParse(src) })
	if pn == acc {
		add("mustparse", fmt.Sprintf("panics=%v", !acc), fmt.Sprintf("panics=%v (%v)", pn, v))
	} else if !pn && (mp == nil || mp.AST == nil) {
		add("mustparse", "a path", "nil")
	} else if pn {
		if e, ok := v.(error); !ok || !errors.Is(e, parser.ErrParse) {
			add("mustparse-value", "panic value is the parse error", fmt.Sprintf("%T %v", v, v))
		}
	}
	// the decoding entry points
	want := ""
	if acc && p != nil && p.AST != nil {
		want = p.String()
	}
	type dec struct {
		name string
		f    func(*path.Path) error
		noop bool // empty input is a no-op, not a parse
	}
	for _, d := range []dec{
		{"Scan(string)", func(q *path.Path) error { return q.Scan(src) }, src == ""},
		{"Scan([]byte)", func(q *path.Path) error { return q.Scan([]byte(src)) }, src == ""},
		{"UnmarshalText", func(q *path.Path) error { return q.UnmarshalText([]byte(src)) }, false},
		{"UnmarshalBinary", func(q *path.Path) error { return q.UnmarshalBinary([]byte(src)) }, false},
	} {
		var q path.Path
		var derr error
		if pn, v := guard(func() { derr = d.f(&q) }); pn {
			add(d.name+"-panic", "returns", "panic: "+fmt.Sprint(v))
			continue
		}
		if d.noop {
			if derr != nil || q.AST != nil {
				add(d.name+"-empty", "no-op", fmt.Sprintf("err=%v changed=%v", derr, q.AST != nil))
			}
			continue
		}
		switch {
		case (derr == nil) != acc:
			add(d.name, fmt.Sprintf("fails=%v (as Parse)", !acc), fmt.Sprintf("fails=%v (%v)", derr != nil, derr))
		case derr != nil:
			if !errors.Is(derr, path.ErrScan) || !errors.Is(derr, parser.ErrParse) {
				add(d.name+"-error-chain", "error wraps path.ErrScan and parser.ErrParse", derr.Error())
			}
		case q.AST == nil:
			add(d.name, "path set", "nil AST")
		default:
			var qs string
			if pn, v := guard(func() { qs = q.String() }); pn {
				add(d.name+"-string-panic", "String() returns", fmt.Sprint(v))
			} else if qs != want {
				add(d.name+"-result", want, qs)
			}
		}
	}
	// every accepted like_regex compiles at execution time
	if acc && p != nil && p.AST != nil {
		var w *walkInfo
		if pn, v := guard(func() { w = walkTree(p.AST) }); pn {
			add("walk-panic", "tree walk returns", fmt.Sprint(v))
		} else if len(w.regexes) > 0 {
			for _, rn := range w.regexes {
				pat, fl := regexFields(rn)
				if pn, v := guard(func() { _ = rn.Regexp() }); pn {
					add("regex-compile", fmt.Sprintf("accepted pattern %q (flags %d) compiles", pat, fl), "panic: "+fmt.Sprint(v))
				}
				o.Regex++
			}
			ctx, cancel := context.WithTimeout(context.Background(), 2*time.Second)
			for _, doc := range []any{"abc", map[string]any{"a": "abc"}, []any{"abc", "x\ny"}} {
				if pn, v := guard(func() { _, _ = p.Query(ctx, doc, exec.WithVars(varsFor(w))) }); pn {
					add("regex-exec", "Query returns", "panic: "+fmt.Sprint(v))
					break
				}
			}
			cancel()
		}
	}
	b, _ := json.Marshal(o)
	a := "R"
	if acc {
		a = "A"
	}
	return a + " " + kind + " " + string(b)
}
