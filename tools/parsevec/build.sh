#!/bin/sh
# Build the two sides of the parser-side differential test.
#   Go side   : always rebuilt, against the working tree of $VERIF_REPO (default /repo)
#   model side: the Coq model extracted to OCaml + driver, rebuilt only if stale
# Output goes to $PV_OUT (default /verif/build/parsevec); nothing is written
# under tools/parsevec or /tmp.
set -e
export GOFLAGS=-mod=mod GOPROXY=off GOSUMDB=off GOTOOLCHAIN=local
HERE=$(cd "$(dirname "$0")" && pwd)
ROOT=$(cd "$HERE/../.." && pwd)
COQ="$ROOT/coq"
OUT=${PV_OUT:-$ROOT/build/parsevec}
REPO=${VERIF_REPO:-/repo}
REPO=$(cd "$REPO" && pwd)
mkdir -p "$OUT/gosrc" "$OUT/ml"

# ---- Go side (staged copy so that go.mod can point at $REPO)
cp "$HERE"/*.go "$OUT/gosrc/"
sed "s|=> /repo\$|=> $REPO|" "$HERE/go.mod" > "$OUT/gosrc/go.mod"
if [ -f "$REPO/go.sum" ]; then cp "$REPO/go.sum" "$OUT/gosrc/go.sum"; else cp "$HERE/go.sum" "$OUT/gosrc/go.sum"; fi
(cd "$OUT/gosrc" && go build -o "$OUT/parsevec.new" . && mv "$OUT/parsevec.new" "$OUT/parsevec")

# ---- model side
MODEL_SRC="lib/Base.v model/Json.v model/Ast.v lib/F64.v lib/Strconv.v gen/Unicode.v lib/Utf8.v lib/GoLib.v model/Lexer.v model/Parser.v model/Printer.v model/PathAPI.v proofs/RoundTrip.v proofs/Tokens.v"
stale=0
[ -x "$OUT/pv_driver" ] || stale=1
for f in $MODEL_SRC; do
  [ "$COQ/$f" -nt "$OUT/pv_driver" ] && stale=1
done
[ "$HERE/coq/ParseInst.v" -nt "$OUT/pv_driver" ] && stale=1
[ "$HERE/coq/driver.ml" -nt "$OUT/pv_driver" ] && stale=1
if [ "$stale" = 1 ]; then
  cd "$COQ"
  for f in $MODEL_SRC; do
    # normally compiled already by the proof leg's make; compile what is missing or older than its source
    if [ ! -f "${f}o" ] || [ "$f" -nt "${f}o" ]; then timeout 900 coqc -Q . SJ "$f"; fi
  done
  cp "$HERE/coq/ParseInst.v" "$HERE/coq/driver.ml" "$OUT/ml/"
  cd "$OUT/ml"
  timeout 900 coqc -Q "$COQ" SJ ParseInst.v 2>&1 | grep -v "Extraction Output Directory\|unknown-option" || true
  [ -f model.ml ] || { echo "extraction failed"; exit 1; }
  ocamlfind ocamlopt -O2 -w -a -package str model.mli model.ml driver.ml -o "$OUT/pv_driver.new"
  mv "$OUT/pv_driver.new" "$OUT/pv_driver"
  echo "model rebuilt"
fi
echo "built in $OUT (repo $REPO)"
