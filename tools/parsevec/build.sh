#!/bin/sh
# Rebuild the Coq model (parser side), the extracted OCaml driver and the Go tool.
set -e
export GOFLAGS=-mod=mod GOPROXY=off GOSUMDB=off GOTOOLCHAIN=local
HERE=$(cd "$(dirname "$0")" && pwd)
COQ=/verif/coq
OUT=${PV_OUT:-/var/tmp/parsevec-build}
mkdir -p "$OUT"
cd "$COQ"
for f in lib/Base.v model/Json.v model/Ast.v lib/F64.v lib/Strconv.v gen/Unicode.v; do
  if [ ! -f "${f}o" ] || [ "$f" -nt "${f}o" ]; then timeout 900 coqc -Q . SJ "$f"; fi
done
# the parser-side files are always rebuilt, in dependency order (about 10 s)
for f in lib/Utf8.v lib/GoLib.v model/Lexer.v model/Parser.v model/Printer.v model/PathAPI.v proofs/RoundTrip.v; do
  timeout 900 coqc -Q . SJ "$f"
done
cd "$HERE/coq"
timeout 900 coqc -Q "$COQ" SJ ParseInst.v 2>&1 | grep -v "Extraction Output Directory\|unknown-option" || true
ocamlfind ocamlopt -w -a -package str model.mli model.ml driver.ml -o "$OUT/pv_driver"
cd "$HERE"
go build -o "$OUT/parsevec" .
echo "built in $OUT"
