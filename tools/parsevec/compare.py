#!/usr/bin/env python3
"""Compare the Go run and the model run of the differential test.
usage: compare.py inputs.hex go.out model.out"""
import sys
from collections import Counter

inputs = [l.rstrip("\n") for l in open(sys.argv[1])]
go = [l.rstrip("\n") for l in open(sys.argv[2])]
mo = [l.rstrip("\n") for l in open(sys.argv[3])]
if not (len(inputs) == len(go) == len(mo)):
    print("LINE COUNT MISMATCH", len(inputs), len(go), len(mo))
    sys.exit(2)

stats = Counter()
kinds = Counter()
examples = {}


def show(h):
    try:
        return repr(bytes.fromhex(h))
    except ValueError:
        return h


def note(cls, i, extra=""):
    stats[cls] += 1
    examples.setdefault(cls, [])
    if len(examples[cls]) < 8:
        examples[cls].append((show(inputs[i]), extra))


for i, (g, m) in enumerate(zip(go, mo)):
    gf, mf = g.split(" "), m.split(" ")
    stats["total"] += 1
    if gf[0] not in ("OK", "ERR"):
        note("go_abnormal", i, g[:80])
        continue
    if gf[0] != mf[0]:
        note("ACCEPT_REJECT", i, "go=%s model=%s" % (" ".join(gf[:2]), " ".join(mf[:2])))
        continue
    gapi, mapi = gf[-1], mf[-1]
    if gapi != mapi:
        note("API", i, "go=%s model=%s" % (gapi, mapi))
    if gf[0] == "OK":
        # OK <sexp...> <hexstring> <api>
        gtree, mtree = " ".join(gf[1:-2]), " ".join(mf[1:-2])
        if gtree != mtree:
            note("TREE", i, "\n   go=%s\n   mo=%s" % (gtree, mtree))
            continue
        if gf[-2] != mf[-2]:
            note("PRINT", i, "\n   go=%s\n   mo=%s" % (show(gf[-2][1:]), show(mf[-2][1:])))
            continue
        stats["agree_ok"] += 1
    else:
        gk, mk = gf[1], mf[1]
        if gk != mk:
            kinds[(gk, mk)] += 1
            note("kind", i, "go=%s model=%s" % (gk, mk))
        else:
            stats["agree_err"] += 1

print("inputs            :", stats["total"])
print("agree (accepted)  :", stats["agree_ok"])
print("agree (rejected)  :", stats["agree_err"])
hard = 0
for cls in ("ACCEPT_REJECT", "TREE", "PRINT", "API", "go_abnormal"):
    print("%-18s: %d" % (cls, stats[cls]))
    hard += stats[cls]
print("error-kind differs: %d   (class (e): message only, accept/reject agrees)" % stats["kind"])
for (gk, mk), n in kinds.most_common():
    print("    go=%-22s model=%-22s %d" % (gk, mk, n))
for cls, ex in examples.items():
    print("--- examples of", cls)
    for inp, extra in ex:
        print("  ", inp, extra)
sys.exit(1 if hard else 0)
