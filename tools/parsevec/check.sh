#!/bin/sh
# Differential test of the Coq parser-side model against the real Go code
# (stand-alone form of the tie leg of bin/check C02 / C03 / C04).
#   usage: check.sh [seed [size]]
#   1. build.sh: Go tool against $VERIF_REPO (default /repo), extracted model if stale
#   2. generate inputs (gen.py --seed --size) and add, as a second generation,
#      every String() the Go code printed for an accepted input
#   3. run Go (tree dump via exported accessors, String(), path.go wrappers)
#   4. run the model; its regex_ok oracle is answered by Go's ast.NewRegex
#   5. compare accept/reject, trees, printed text, wrapper results, error kinds
set -e
HERE=$(cd "$(dirname "$0")" && pwd)
ROOT=$(cd "$HERE/../.." && pwd)
OUT=${PV_OUT:-$ROOT/build/parsevec}
export PV_OUT="$OUT"
SEED=${1:-${VERIF_SEED:-1}}
SIZE=${2:-16000}
"$HERE/build.sh"
mkdir -p "$OUT/standalone"
cd "$OUT/standalone"
python3 "$HERE/gen.py" --seed "$SEED" --size "$SIZE" > gen1.hex
"$OUT/parsevec" < gen1.hex > go1.out
# second generation: the printed form of every accepted input
awk '$1=="OK" { s=$NF; if (s != "e") print substr(s, 2) }' go1.out | sort -u > gen2.hex
cat gen1.hex gen2.hex | awk '!seen[$0]++' > inputs.hex
"$OUT/parsevec" -api < inputs.hex > go.out
"$OUT/pv_driver" collect < inputs.hex > regex_queries.txt
"$OUT/parsevec" -regex < regex_queries.txt > regex_table.txt
"$OUT/pv_driver" run regex_table.txt -api < inputs.hex > model.out
python3 "$HERE/compare.py" inputs.hex go.out model.out | tee report.txt
