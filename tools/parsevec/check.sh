#!/bin/sh
# Differential test of the Coq parser-side model against the real Go code.
#   1. build the model (coqc), extract to OCaml, build the Go tool
#   2. generate inputs (gen.py, fixed seed) and add, as a second generation,
#      every String() the Go code printed for an accepted input
#   3. run Go (tree dump via exported accessors, String(), path.go wrappers)
#   4. run the model; its regex_ok oracle is answered by Go's ast.NewRegex
#   5. compare accept/reject, trees, printed text, wrapper results, error kinds
set -e
HERE=$(cd "$(dirname "$0")" && pwd)
OUT=${PV_OUT:-/var/tmp/parsevec-build}
export PV_OUT="$OUT"
"$HERE/build.sh"
cd "$OUT"
python3 "$HERE/gen.py" > gen1.hex
./parsevec < gen1.hex > go1.out
# second generation: the printed form of every accepted input
awk '$1=="OK" { s=$NF; if (s != "e") print substr(s, 2) }' go1.out | sort -u > gen2.hex
cat gen1.hex gen2.hex | awk '!seen[$0]++' > inputs.hex
./parsevec -api < inputs.hex > go.out
./pv_driver collect < inputs.hex > regex_queries.txt
./parsevec -regex < regex_queries.txt > regex_table.txt
./pv_driver run regex_table.txt -api < inputs.hex > model.out
python3 "$HERE/compare.py" inputs.hex go.out model.out | tee report.txt
