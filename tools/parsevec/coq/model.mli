
val negb : bool -> bool

type nat =
| O
| S of nat

type ('a, 'b) sum =
| Inl of 'a
| Inr of 'b

val fst : ('a1 * 'a2) -> 'a1

val snd : ('a1 * 'a2) -> 'a2

val length : 'a1 list -> nat

val app : 'a1 list -> 'a1 list -> 'a1 list

type comparison =
| Eq
| Lt
| Gt

val compOpp : comparison -> comparison

val add : nat -> nat -> nat

val mul : nat -> nat -> nat

type positive =
| XI of positive
| XO of positive
| XH

type n =
| N0
| Npos of positive

type z =
| Z0
| Zpos of positive
| Zneg of positive

val eqb : bool -> bool -> bool

module Nat :
 sig
  val pred : nat -> nat

  val eqb : nat -> nat -> bool

  val leb : nat -> nat -> bool
 end

module Pos :
 sig
  val succ : positive -> positive

  val add : positive -> positive -> positive

  val add_carry : positive -> positive -> positive

  val pred_double : positive -> positive

  val pred_N : positive -> n

  val mul : positive -> positive -> positive

  val iter : ('a1 -> 'a1) -> 'a1 -> positive -> 'a1

  val div2 : positive -> positive

  val div2_up : positive -> positive

  val size : positive -> positive

  val compare_cont : comparison -> positive -> positive -> comparison

  val compare : positive -> positive -> comparison

  val eqb : positive -> positive -> bool

  val coq_Nsucc_double : n -> n

  val coq_Ndouble : n -> n

  val coq_lor : positive -> positive -> positive

  val coq_land : positive -> positive -> n

  val ldiff : positive -> positive -> n

  val testbit : positive -> n -> bool

  val iter_op : ('a1 -> 'a1 -> 'a1) -> positive -> 'a1 -> 'a1

  val to_nat : positive -> nat

  val of_succ_nat : nat -> positive
 end

module N :
 sig
  val succ_pos : n -> positive

  val add : n -> n -> n

  val mul : n -> n -> n

  val coq_lor : n -> n -> n

  val coq_land : n -> n -> n

  val ldiff : n -> n -> n

  val testbit : n -> n -> bool
 end

module Z :
 sig
  val double : z -> z

  val succ_double : z -> z

  val pred_double : z -> z

  val pos_sub : positive -> positive -> z

  val add : z -> z -> z

  val opp : z -> z

  val sub : z -> z -> z

  val mul : z -> z -> z

  val pow_pos : z -> positive -> z

  val pow : z -> z -> z

  val compare : z -> z -> comparison

  val leb : z -> z -> bool

  val ltb : z -> z -> bool

  val eqb : z -> z -> bool

  val max : z -> z -> z

  val min : z -> z -> z

  val abs : z -> z

  val to_nat : z -> nat

  val to_N : z -> n

  val of_nat : nat -> z

  val of_N : n -> z

  val pos_div_eucl : positive -> z -> z * z

  val div_eucl : z -> z -> z * z

  val div : z -> z -> z

  val modulo : z -> z -> z

  val even : z -> bool

  val odd : z -> bool

  val div2 : z -> z

  val log2 : z -> z

  val testbit : z -> z -> bool

  val shiftl : z -> z -> z

  val shiftr : z -> z -> z

  val coq_lor : z -> z -> z

  val coq_land : z -> z -> z
 end

val rev : 'a1 list -> 'a1 list

val map : ('a1 -> 'a2) -> 'a1 list -> 'a2 list

val flat_map : ('a1 -> 'a2 list) -> 'a1 list -> 'a2 list

val forallb : ('a1 -> bool) -> 'a1 list -> bool

val firstn : nat -> 'a1 list -> 'a1 list

val skipn : nat -> 'a1 list -> 'a1 list

val zero : char

val one : char

val shift : bool -> char -> char

val ascii_of_pos : positive -> char

val ascii_of_N : n -> char

val n_of_digits : bool list -> n

val n_of_ascii : char -> n

val eqb0 : char list -> char list -> bool

val append : char list -> char list -> char list

val shift_pos : positive -> positive -> positive

type spec_float =
| S754_zero of bool
| S754_infinity of bool
| S754_nan
| S754_finite of bool * positive * z

val emin : z -> z -> z

val fexp : z -> z -> z -> z

val digits2_pos : positive -> positive

val zdigits2 : z -> z

val iter_pos : ('a1 -> 'a1) -> positive -> 'a1 -> 'a1

type location =
| Loc_Exact
| Loc_Inexact of comparison

type shr_record = { shr_m : z; shr_r : bool; shr_s : bool }

val shr_1 : shr_record -> shr_record

val loc_of_shr_record : shr_record -> location

val shr_record_of_loc : z -> location -> shr_record

val shr : shr_record -> z -> z -> shr_record * z

val shr_fexp : z -> z -> z -> z -> location -> shr_record * z

val round_nearest_even : z -> location -> z

val binary_round_aux : z -> z -> bool -> z -> z -> location -> spec_float

val shl_align : positive -> z -> z -> positive * z

val binary_round : z -> z -> bool -> positive -> z -> spec_float

val sFopp : spec_float -> spec_float

val sFabs : spec_float -> spec_float

val sFcompare : spec_float -> spec_float -> comparison option

val sFltb : spec_float -> spec_float -> bool

val sFleb : spec_float -> spec_float -> bool

type 'a outcome =
| Ret of 'a
| Panic of char list
| OutOfFuel

val max_int64 : z

val max_uint32 : z

val str_of_list : char list -> char list

val list_of_str : char list -> char list

val ascii_of_Z : z -> char

val z_of_ascii : char -> z

val lower_ascii : char -> char

val str_lower : char list -> char list

val rune_error : z

val max_rune : z

val is_surrogate : z -> bool

val valid_rune : z -> bool

val bytes_of : char list -> z list

val str_of_bytes : z list -> char list

val is_cont : z -> bool

val decode_rune : z list -> z * nat

val encode_rune : z -> z list

val encode_runes : z list -> z list

val decode_events : nat -> z list -> (z * nat) list

val runes_of_bytes : z list -> z list

val runes_of : char list -> z list

val lex_event : (z * nat) -> z

val lex_runes_of_bytes : z list -> z list

val lex_runes_of : char list -> z list

val string_of_runes : z list -> char list

type f64 = spec_float

type goLib = { xid_start : (z -> bool); xid_continue : (z -> bool);
               is_print : (z -> bool); to_lower : (z -> z);
               parse_int0 : (char list -> z option);
               parse_float : (char list -> (f64 * bool) option);
               format_int : (z -> char list);
               format_float_json : (f64 -> char list);
               f64_neg : (f64 -> f64); regex_ok : (char list -> z -> bool) }

val f64_finite : f64 -> bool

val f64_sign : f64 -> bool

val f64_integral : f64 -> bool

type f0 = spec_float

val f64_mk : bool -> z -> z -> f0

val f64_neg0 : f0 -> f0

val f64_abs : f0 -> f0

val f64_ltb : f0 -> f0 -> bool

val f64_leb : f0 -> f0 -> bool

val f64_is_inf : f0 -> bool

val f64_is_zero : f0 -> bool

val f64_signbit : f0 -> bool

val f64_nan_bits : z

val f64_to_bits : f0 -> z

val fde_loop : nat -> z -> z -> z -> z -> z -> z * z

val zfast_div_eucl : z -> z -> z * z

val loc_of_rem : z -> z -> location

val f64_of_ratio : bool -> z -> z -> f0

val dd_loop : nat -> z -> z -> z

val dec_digits : z -> z

val f64_of_dec : bool -> z -> z -> f0

val cz : char -> z

val is_digit : char -> bool

val lowerz : char -> z

val is_hex_letter : char -> bool

val is_sign : char -> bool

val digit_char : z -> char

type us_saw =
| SawStart
| SawDigit
| SawUnder
| SawOther

val us_loop : bool -> us_saw -> char list -> bool

val underscore_ok : char list -> bool

val pu_loop : z -> bool -> char list -> z -> bool -> (z * bool) option

val parse_uint_raw : z -> char list -> z option

val parse_int : z -> z -> char list -> z option

val digits_rev : nat -> z -> z list

val dec_digits_list : z -> z list

val str_of_digits : z list -> char list

val format_nat : z -> char list

val format_int0 : z -> char list

type rf_state = { rf_sawdot : bool; rf_sawdigits : bool; rf_us : bool;
                  rf_nd : z; rf_dp : z; rf_mant : z }

val rf_mant_loop : bool -> char list -> rf_state -> rf_state * char list

val rf_exp_loop : char list -> z -> bool -> (z * bool) * char list

val rf_exponent : z -> char list -> (((bool * z) * bool) * char list) option

val parse_float_num : char list -> (f0 * bool) option

val parse_float0 : char list -> (f0 * bool) option

val strip_trailing_zeros_rev : z list -> z list

val strip_trailing_zeros : z list -> z list

val small_fdiv : z -> z -> z

val sdJ_loop :
  nat -> z -> z -> z -> bool -> comparison -> z -> z -> z -> z -> bool -> z
  -> z list * z

val shortest_digits : f0 -> z list * z

val zeros : nat -> char list

val fmt_f : bool -> z list -> z -> char list

val fmt_e : bool -> z list -> z -> char list

val format_special : f0 -> char list option

val format_float_f : f0 -> char list

val format_float_e : f0 -> char list

val json_exp_cleanup : char list -> char list

val format_float_json0 : f0 -> char list

val xid_start_tab : ((z * z) * (z * z) list) list

val xid_continue_tab : ((z * z) * (z * z) list) list

val is_print_tab : ((z * z) * (z * z) list) list

val to_lower_tab : ((z * z) * ((z * z) * z) list) list

val in_ranges : z -> (z * z) list -> bool

val in_tab : z -> ((z * z) * (z * z) list) list -> bool

val delta_ranges : z -> ((z * z) * z) list -> z

val delta_tab : z -> ((z * z) * ((z * z) * z) list) list -> z

val xid_start0 : z -> bool

val xid_continue0 : z -> bool

val is_print0 : z -> bool

val to_lower0 : z -> z

type constk =
| CRoot
| CCurrent
| CLast
| CAnyArray
| CAnyKey
| CTrue
| CFalse
| CNull

type binop =
| BAnd
| BOr
| BEq
| BNe
| BLt
| BGt
| BLe
| BGe
| BStartsWith
| BAdd
| BSub
| BMul
| BDiv
| BMod

type unop =
| UExists
| UNot
| UIsUnknown
| UPlus
| UMinus
| UFilter

type dtop =
| DDateTime
| DDate
| DTime
| DTimeTZ
| DTimestamp
| DTimestampTZ

type meth =
| MAbs
| MSize
| MType
| MFloor
| MCeiling
| MDouble
| MKeyValue
| MBigInt
| MBoolean
| MInteger
| MNumber
| MString

type step =
| SConst of constk
| SStr of char list
| SInteger of z
| SNumeric of f64
| SVar of char list
| SKey of char list
| SBin of binop * step list * step list
| SUn of unop * step list
| SRegex of step list * char list * z
| SMeth of meth
| SDecimal of z option * z option
| SDt of dtop * char list option * z option
| SAny of z * z
| SIndex of (step list * step list option) list

type chain = step list

type path = { p_lax : bool; p_pred : bool; p_root : chain }

val reICase : z

val reDotAll : z

val reMLine : z

val reWSpace : z

val reQuote : z

type lex_err =
| EUtf8
| ENul
| ENumUnderscoreStart
| ENumJunk
| ENumExpMantissa
| ENumExpDigits
| ENumInvalidDigit
| ENumSep
| EComment
| EUnterminated
| EBackslashEnd
| ESurrogate
| EHex
| EUnicode
| EU0000
| EInvalidChar
| EOutOfFuel

type 'a lres =
| LOk of 'a
| LErr of lex_err

val lbind : 'a1 lres -> ('a1 -> 'a2 lres) -> 'a2 lres

type kw =
| KTo
| KNull
| KTrue
| KFalse
| KIs
| KUnknown
| KExists
| KStrict
| KLax
| KLast
| KStarts
| KWith
| KLikeRegex
| KFlag
| KAbs
| KSize
| KType
| KFloor
| KDouble
| KCeiling
| KKeyvalue
| KDatetime
| KBigint
| KBoolean
| KDate
| KDecimal
| KInteger
| KNumber
| KStringfunc
| KTime
| KTimeTz
| KTimestamp
| KTimestampTz

type tkind =
| TChar of z
| TIdent
| TString
| TNumeric
| TInt
| TVariable
| TOr
| TAnd
| TNot
| TLess
| TLessEq
| TEqual
| TNotEqual
| TGreaterEq
| TGreater
| TAny
| TKw of kw
| TErr of lex_err

type token = { tk : tkind; ttext : char list }

val is_ws : z -> bool

val lower : z -> z

val is_decimal : z -> bool

val is_hex : z -> bool

val hex_char : z -> z

val is_ident_rune : goLib -> z -> bool -> bool

val is_variable_rune : goLib -> z -> bool

val check : z -> unit lres

val next : z list -> (z * z list) lres

val skip_ws : z -> z list -> (z * z list) lres

val digits :
  z -> z -> z list -> z list -> z -> z -> ((((z * z list) * z list) * z) * z)
  lres

val invalid_sep_loop : bool -> z -> z list -> bool

val invalid_sep : z list -> bool

val scan_number_tail :
  goLib -> tkind -> z -> z -> z -> z list -> z list -> z -> z -> bool ->
  (((tkind * z list) * z) * z list) lres

val scan_number :
  goLib -> z -> z list -> bool -> (((tkind * z list) * z) * z list) lres

val braces : nat -> z -> z -> z list -> (z * z list) lres

val decode_unicode : z list -> (z * z list) lres

val utf16_pair : z -> z -> z option

val scan_unicode : z list -> z list -> ((z * z list) * z list) lres

val scan_hex : z list -> z list -> ((z * z list) * z list) lres

val scan_escape : z list -> z list -> ((z * z list) * z list) lres

val string_loop : nat -> z -> z list -> z list -> ((z * z list) * z list) lres

val scan_string : z list -> ((z * z list) * z list) lres

val ident_loop :
  goLib -> nat -> z -> z list -> z list -> ((z * z list) * z list) lres

val kw_table : (char list * kw) list

val assoc_str : char list -> (char list * 'a1) list -> 'a1 option

val str_to_lower : goLib -> char list -> char list

val ident_token : goLib -> char list -> tkind

val scan_ident : goLib -> z -> z list -> ((token * z) * z list) lres

val var_loop : goLib -> z -> z list -> z list -> ((z * z list) * z list) lres

val scan_variable : goLib -> z list -> ((token * z) * z list) lres

val comment_loop : z -> z list -> (z * z list) lres

val scan_comment : z list -> (z * z list) lres

val scan_operator : z -> z list -> ((token * z) * z list) lres

val lex_tok :
  goLib -> nat -> z -> z list -> ((token option * z) * z list) lres

val err_tok : lex_err -> token

val lex_all : goLib -> nat -> z -> z list -> token list

val lex_runes : goLib -> z list -> token list

val lex : goLib -> char list -> token list

type err_kind =
| ELex of lex_err
| ESyntax
| EIntParse
| EFloatParse
| EDecimalArgs
| ERegexFlag
| ERegexX
| ERegexPattern
| ECurrentRoot
| ELastSubscript
| EFuel

type parse_result =
| POk of path
| PErr of err_kind

type 'a pres =
| ROk of 'a
| RErr of err_kind

val rbind : 'a1 pres -> ('a1 -> 'a2 pres) -> 'a2 pres

type sort =
| SE
| SP

val syn : token list -> 'a1 pres

val new_integer : goLib -> char list -> z pres

val new_numeric : goLib -> char list -> f64 pres

val new_unary_or_number : goLib -> unop -> chain -> chain

val any_bound : z -> z

val new_any : z -> z -> step

val regex_flags_loop : z list -> z -> z option

val new_regex : goLib -> chain -> char list -> char list -> step pres

val is_char : token -> z -> bool

val meth_of_kw : kw -> meth option

val dtprec_of_kw : kw -> dtop option

val cmp_of_tok : tkind -> binop option

val arith_of_tok : tkind -> (binop * nat) option

val p_any_level : goLib -> token list -> (z * token list) pres

val p_any : goLib -> token list -> (step * token list) pres

val p_csv_elem : goLib -> token list -> (z * token list) pres

val p_csv_rest : goLib -> z list -> token list -> (z list * token list) pres

val p_decimal_args : goLib -> token list -> (step * token list) pres

val p_dot : goLib -> token list -> (step * token list) pres

val p_primary : goLib -> token list -> (step * token list) pres option

val starts_accessor : token list -> bool

val p_eop :
  goLib -> nat -> nat -> bool -> token list -> ((sort * chain) * token list)
  pres

val validate_step : step -> nat -> bool -> err_kind option

val validate_chain : chain -> nat -> bool -> err_kind option

val parser_fuel : token list -> nat

val parse_tokens : goLib -> token list -> parse_result

val parse : goLib -> char list -> parse_result

val is_accessor_step : step -> bool

val is_pred_step : step -> bool

val is_pred_chain : chain -> bool

val is_expr_chain : chain -> bool

val chain_shape : chain -> bool

val wf_text : char list -> bool

val is_number_chain : chain -> bool

val lit_int_ok : z -> bool

val step_ok : goLib -> step -> bool

val st_all : (step -> bool) -> (step list -> bool) -> step -> bool

val ch_all : (step -> bool) -> (step list -> bool) -> chain -> bool

val wf_chain : goLib -> chain -> bool

val binop_name : binop -> char list

val binop_prio : binop -> nat

val const_name : constk -> char list

val meth_name : meth -> char list

val dtop_name : dtop -> char list

val step_prio : step -> nat

val chain_prio : chain -> nat

val regex_flags_string : z -> char list

val hex_digit : z -> z

val hex_min56 : z -> z list

val quote_rune : goLib -> z -> z list

val quote_bytes : goLib -> char list -> z list

val quote : goLib -> char list -> char list

val opt_int : goLib -> z option -> char list

val print_any : goLib -> z -> z -> char list

val paren : bool -> char list -> char list

val print_step : goLib -> step -> bool -> bool -> bool -> char list

val print_chain : goLib -> chain -> bool -> bool -> char list

val print_path : goLib -> path -> char list

type api_err =
| ApiPathParse of err_kind
| ApiScanParse of err_kind
| ApiScanType

type scan_src =
| SrcNil
| SrcString of char list
| SrcBytes of char list
| SrcOther

val parse_api : goLib -> char list -> (path, api_err) sum

val must_parse : goLib -> char list -> path outcome

val scan : goLib -> path option -> scan_src -> (path option, api_err) sum

val unmarshal_binary : goLib -> char list -> (path, api_err) sum

val unmarshal_text : goLib -> char list -> (path, api_err) sum

val is_operator_step : step -> bool

val op_with_tail : chain -> bool

val integral_numeric : step -> bool

val excl_chain : chain -> bool

val excl_C02 : path -> bool

val kw_beq : kw -> kw -> bool

val ctok : z -> token

val kwt : kw -> char list -> token

val binop_toks : binop -> token list

val const_toks : constk -> bool -> token list

val meth_kw : meth -> kw * char list

val dtop_kw : dtop -> kw * char list

val tparen : bool -> token list -> token list

val regex_flag_text : z -> char list

val int_toks : goLib -> z -> token list

val num_toks : goLib -> f64 -> token list

val level_toks : goLib -> z -> token list

val any_toks : goLib -> z -> z -> token list

val tok_step : goLib -> step -> bool -> bool -> bool -> token list

val tok_chain : goLib -> chain -> bool -> bool -> token list

val tok_path : goLib -> path -> token list

val mk_lib : (char list -> z -> bool) -> goLib

val hexd : z -> char

val hex_bytes : z list -> char list

val hx : char list -> char list

val hex_fixed : nat -> z -> char list -> char list

val const_dump : constk -> char list

val bin_dump : binop -> char list

val un_dump : unop -> char list

val dt_dump : dtop -> char list

val meth_dump : meth -> char list

val fi : z -> char list

val oint : z option -> char list

val dump_step : step -> char list

val dump_chain : chain -> bool -> char list

val dump_path : path -> char list

val lex_err_name : lex_err -> char list

val err_name : err_kind -> char list

val lex_err_beq : lex_err -> lex_err -> bool

val internal_positive_beq : positive -> positive -> bool

val internal_Z_beq : z -> z -> bool

val tkind_beq : tkind -> tkind -> bool

val tok_eqb : token -> token -> bool

val toks_eqb : token list -> token list -> bool

val run_line : (char list -> z -> bool) -> char list -> char list

val api_line : (char list -> z -> bool) -> char list -> char list
